"""Symbolic byte strings and cp1252-decoded text for symx harnesses (C25, C47, C48, C33).

SymBytes: a sequence of bytes, each a concrete int or a SymInt in [0,255]; length is concrete on a path.
SymText : the result of SymBytes.decode('cp1252'/'latin1'): a sequence of code points (SymInt), so that len /
          slicing / concatenation / comparison / lower / encode of the real code keep working symbolically.
"""
import builtins

import z3

from vf.symx import SymInt, SymBool, lift, Engine

CP1252 = {0x80: 0x20AC, 0x82: 0x201A, 0x83: 0x0192, 0x84: 0x201E, 0x85: 0x2026, 0x86: 0x2020, 0x87: 0x2021, 0x88: 0x02C6,
          0x89: 0x2030, 0x8A: 0x0160, 0x8B: 0x2039, 0x8C: 0x0152, 0x8E: 0x017D, 0x91: 0x2018, 0x92: 0x2019, 0x93: 0x201C,
          0x94: 0x201D, 0x95: 0x2022, 0x96: 0x2013, 0x97: 0x2014, 0x98: 0x02DC, 0x99: 0x2122, 0x9A: 0x0161, 0x9B: 0x203A,
          0x9C: 0x0153, 0x9E: 0x017E, 0x9F: 0x0178}
CP1252_UNDEF = (0x81, 0x8D, 0x8F, 0x90, 0x9D)


def _items(x):
    if isinstance(x, (SymBytes, SymText)):
        return list(x.items)
    return list(x)


def _lex_cmp(a, b):
    """-1 / 0 / 1 lexicographic comparison, forking on symbolic elements."""
    for x, y in zip(a, b):
        if x == y:
            continue
        return -1 if x < y else 1
    return (len(a) > len(b)) - (len(a) < len(b))


class _Seq(object):
    def __init__(self, items):
        self.items = list(items)

    def __len__(self):
        return len(self.items)

    def __bool__(self):
        return len(self.items) > 0

    def __iter__(self):
        return iter(self.items)

    def __getitem__(self, i):
        if isinstance(i, slice):
            s, e, st = i.indices(len(self.items))
            return self.__class__(self.items[s:e:st])
        return self.items[builtins.int(i)]

    def __add__(self, o):
        return self.__class__(self.items + _items(o))

    def __radd__(self, o):
        return self.__class__(_items(o) + self.items)

    def __mul__(self, n):
        return self.__class__(self.items * builtins.int(n))

    def __eq__(self, o):
        if not isinstance(o, (bytes, bytearray, str, _Seq)):
            return False
        o = _items(o) if not isinstance(o, str) else [builtins.ord(c) for c in o]
        if len(o) != len(self.items):
            return False
        for x, y in zip(self.items, o):
            if not (x == y):
                return False
        return True

    def __ne__(self, o):
        return not self.__eq__(o)

    def _ord_items(self, o):
        return [builtins.ord(c) for c in o] if isinstance(o, str) else _items(o)

    def __lt__(self, o):
        return _lex_cmp(self.items, self._ord_items(o)) < 0

    def __gt__(self, o):
        return _lex_cmp(self.items, self._ord_items(o)) > 0

    def __le__(self, o):
        return _lex_cmp(self.items, self._ord_items(o)) <= 0

    def __ge__(self, o):
        return _lex_cmp(self.items, self._ord_items(o)) >= 0

    def __hash__(self):
        return hash(tuple(builtins.int(x) for x in self.items))


class SymBytes(_Seq):
    def decode(self, codec='utf-8', errors='strict'):
        codec = codec.lower().replace('-', '').replace('_', '')
        if codec in ('latin1', 'iso88591'):
            return SymText(self.items)
        if codec == 'cp1252':
            out = []
            for b in self.items:
                b = lift(b)
                if b.is_concrete():
                    out.append(builtins.ord(bytes([b.lo]).decode('cp1252', errors)))
                    continue
                bad = z3.Or(*[b.z == z3.BitVecVal(u, b.w) for u in CP1252_UNDEF])
                if Engine.cur.branch(bad):
                    raise UnicodeDecodeError('charmap', b'?', 0, 1, 'character maps to <undefined>')
                w = 18
                z = z3.ZeroExt(w - b.w, b.z) if b.w < w else b.z
                cp = z
                for k, v in CP1252.items():
                    cp = z3.If(z == k, z3.BitVecVal(v, w), cp)
                out.append(SymInt(cp, w, 0, 0x2122))
            return SymText(out)
        # other codecs: concretise
        return bytes(builtins.int(x) for x in self.items).decode(codec, errors)

    def __repr__(self):
        return "SymBytes(%r)" % (self.items,)


class SymText(_Seq):
    def encode(self, codec='utf-8', errors='strict'):
        codec = codec.lower().replace('-', '').replace('_', '')
        if codec in ('cp1252', 'latin1', 'iso88591'):
            out = []
            for c in self.items:
                c = lift(c)
                if c.is_concrete():
                    out.append(chr(c.lo).encode(codec, errors)[0])
                    continue
                w = c.w
                r = c.z
                if codec == 'cp1252':
                    for k, v in CP1252.items():
                        r = z3.If(c.z == z3.BitVecVal(v, w), z3.BitVecVal(k, w), r)
                out.append(SymInt(z3.Extract(8, 0, z3.ZeroExt(9, r)) if w < 9 else z3.Extract(8, 0, r), 9, 0, 255))
            return SymBytes(out)
        return "".join(chr(builtins.int(x)) for x in self.items).encode(codec, errors)

    def lower(self):
        out = []
        for c in self.items:
            c = lift(c)
            if c.is_concrete():
                out.append(builtins.ord(chr(c.lo).lower()[0]))
                continue
            if Engine.cur.branch(z3.And(c.z >= 0x41, c.z <= 0x5A)):
                out.append(c + 32)
            else:
                # other case mappings (accented capitals...) are left to concretisation
                v = builtins.int(c)
                out.append(builtins.ord(chr(v).lower()[0]))
        return SymText(out)

    def __repr__(self):
        return "SymText(%r)" % (self.items,)

    __str__ = __repr__


def to_bytes_model(items):
    """z3 terms (9-bit) of a byte list."""
    from vf.refsem import bv_of_const
    return [bv_of_const(x, 9) for x in items]
