"""ceval -- independent concrete evaluator of miasm expressions over plain Python ints.

Used by the replay step (on unpatched miasm) and to cross-validate refsem.  Written from the
documented meaning of each operator, sharing no code with miasm's simplifier nor with refsem.
"""


class Undefined(Exception):
    """Division by zero / operator without fixed meaning."""


def mask(n):
    return (1 << n) - 1


def sgn(x, n):
    x &= mask(n)
    return x - (1 << n) if x >> (n - 1) else x


def ceval(e, ids, mem):
    """ids: dict name -> int ; mem: callable(addr:int) -> byte int."""
    n = e.size
    if e.is_int():
        return int(e) & mask(n)
    if e.is_id():
        return ids[e.name] & mask(n)
    if e.is_loc():
        return ids["loc_%s" % e.loc_key.key] & mask(n)
    if e.is_slice():
        return (ceval(e.arg, ids, mem) >> e.start) & mask(e.stop - e.start)
    if e.is_compose():
        r = 0
        off = 0
        for a in e.args:
            r |= ceval(a, ids, mem) << off
            off += a.size
        return r
    if e.is_cond():
        return ceval(e.src1 if ceval(e.cond, ids, mem) else e.src2, ids, mem)
    if e.is_mem():
        p = ceval(e.ptr, ids, mem)
        ps = e.ptr.size
        r = 0
        for i in range((n + 7) // 8):
            r |= (mem((p + i) & mask(ps)) & 0xff) << (8 * i)
        return r & mask(n)
    op = e.op
    a = [ceval(x, ids, mem) for x in e.args]
    s = e.args[0].size
    M = mask(n)
    if op == '+':
        return sum(a) & M
    if op == '*':
        r = 1
        for x in a:
            r *= x
        return r & M
    if op == '^':
        r = 0
        for x in a:
            r ^= x
        return r
    if op == '&':
        r = M
        for x in a:
            r &= x
        return r
    if op == '|':
        r = 0
        for x in a:
            r |= x
        return r
    if op == '-':
        return (-a[0] if len(a) == 1 else a[0] - a[1]) & M
    if op == '<<':
        return (a[0] << a[1]) & M if a[1] < n else 0
    if op == '>>':
        return a[0] >> a[1] if a[1] < n else 0
    if op == 'a>>':
        return (sgn(a[0], n) >> min(a[1], n)) & M
    if op == '<<<':
        k = a[1] % n
        return ((a[0] << k) | (a[0] >> (n - k))) & M
    if op == '>>>':
        k = a[1] % n
        return ((a[0] >> k) | (a[0] << (n - k))) & M
    if op in ('/', 'udiv', '%', 'umod', 'sdiv', 'smod'):
        if a[1] == 0:
            raise Undefined("division by zero")
        if op in ('/', 'udiv'):
            return a[0] // a[1]
        if op in ('%', 'umod'):
            return a[0] % a[1]
        x, y = sgn(a[0], n), sgn(a[1], n)
        q = abs(x) // abs(y)
        if (x < 0) != (y < 0):
            q = -q
        if op == 'sdiv':
            return q & M
        return (x - q * y) & M
    if op == '**':
        return pow(a[0], a[1], 1 << n)
    if op == '==':
        return int(a[0] == a[1])
    if op == '<u':
        return int(a[0] < a[1])
    if op == '<=u':
        return int(a[0] <= a[1])
    if op == '<s':
        return int(sgn(a[0], s) < sgn(a[1], s))
    if op == '<=s':
        return int(sgn(a[0], s) <= sgn(a[1], s))
    if op.startswith('zeroExt_'):
        return a[0]
    if op.startswith('signExt_'):
        return sgn(a[0], s) & M
    if op == 'parity':
        return 1 - bin(a[0] & 0xff).count('1') % 2
    if op == 'cntleadzeros':
        return s - a[0].bit_length()
    if op == 'cnttrailzeros':
        return s if a[0] == 0 else (a[0] & -a[0]).bit_length() - 1
    if op == 'FLAG_EQ':
        return int(a[0] == 0)
    if op == 'FLAG_EQ_AND':
        return int(a[0] & a[1] == 0)
    if op == 'FLAG_EQ_CMP':
        return int(a[0] == a[1])
    if op == 'FLAG_SIGN_SUB':
        return ((a[0] - a[1]) >> (s - 1)) & 1
    if op == 'FLAG_SIGN_ADD':
        return ((a[0] + a[1]) >> (s - 1)) & 1
    if op == 'FLAG_ADD_CF':
        return int(a[0] + a[1] > mask(s))
    if op == 'FLAG_SUB_CF':
        return int(a[0] < a[1])
    if op == 'FLAG_ADD_OF':
        r = sgn(a[0], s) + sgn(a[1], s)
        return int(not -(1 << (s - 1)) <= r < (1 << (s - 1)))
    if op == 'FLAG_SUB_OF':
        r = sgn(a[0], s) - sgn(a[1], s)
        return int(not -(1 << (s - 1)) <= r < (1 << (s - 1)))
    if op in ('FLAG_EQ_ADDWC', 'FLAG_SIGN_ADDWC', 'FLAG_ADDWC_CF', 'FLAG_ADDWC_OF'):
        x, y, c = a
        r = x + y + c
        if op == 'FLAG_EQ_ADDWC':
            return int(r & mask(s) == 0)
        if op == 'FLAG_SIGN_ADDWC':
            return (r >> (s - 1)) & 1
        if op == 'FLAG_ADDWC_CF':
            return int(r > mask(s))
        r = sgn(x, s) + sgn(y, s) + c
        return int(not -(1 << (s - 1)) <= r < (1 << (s - 1)))
    if op in ('FLAG_EQ_SUBWC', 'FLAG_SIGN_SUBWC', 'FLAG_SUBWC_CF', 'FLAG_SUBWC_OF'):
        x, y, c = a
        r = x - y - c
        if op == 'FLAG_EQ_SUBWC':
            return int(r & mask(s) == 0)
        if op == 'FLAG_SIGN_SUBWC':
            return (r >> (s - 1)) & 1
        if op == 'FLAG_SUBWC_CF':
            return int(x < y + c)
        r = sgn(x, s) - sgn(y, s) - c
        return int(not -(1 << (s - 1)) <= r < (1 << (s - 1)))
    if op == 'CC_U<=':
        return a[0] | a[1]
    if op == 'CC_U>':
        return 1 - (a[0] | a[1])
    if op == 'CC_U>=':
        return 1 - a[0]
    if op == 'CC_U<':
        return a[0]
    if op == 'CC_S<':
        return a[0] ^ a[1]
    if op == 'CC_S>=':
        return 1 - (a[0] ^ a[1])
    if op == 'CC_S>':
        return 1 - (a[2] | (a[0] ^ a[1]))
    if op == 'CC_S<=':
        return a[2] | (a[0] ^ a[1])
    if op in ('CC_NEG', 'CC_EQ'):
        return a[0]
    if op in ('CC_POS', 'CC_NE'):
        return 1 - a[0]
    raise Undefined("operator %s has no fixed meaning" % op)
