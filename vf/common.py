"""common -- runner shared by every property check.

A property module provides:
  PROP, LEVEL, META (dict: functions, stubs, bounds, assumptions, explanation, rule)
  tasks(tier, seed)      -> list of JSON-able task dicts with a unique 'id'
  run_task(task)         -> result dict (see `new_result`)
  twins(tier)            -> list of tasks whose harness is deliberately wrong: each MUST be violated
  replay(witness)        -> (reproduced: bool, detail: str); run in a fresh process on unpatched miasm
Exit codes: 0 held on everything explored; 1 new violation (VIOLATION line); 3 harness error.
"""
import argparse
import hashlib
import json
import multiprocessing as mp
import os
import subprocess
import sys
import time
import traceback

VERIF = os.path.dirname(os.path.dirname(os.path.abspath(__file__)))
PY = os.path.join(VERIF, '.venv', 'bin', 'python')
KNOWN_FILE = os.path.join(VERIF, 'known_findings.json')


def load_known(prop):
    try:
        with open(KNOWN_FILE) as f:
            data = json.load(f)
    except FileNotFoundError:
        return []
    return [e for e in data.get('findings', []) if e.get('property') == prop]


def new_result(task):
    return dict(id=task['id'], paths=0, obligations=0, discharged=0, inconclusive=[],
                violations=[], queries=0, solver_s=0.0, samples=[], errors=[], nontrivial=0)


def absorb_engine(res, eng, path_records, site, describe=None, known=()):
    """Fold an Engine's exploration into a task result.  `site` identifies the call site/template;
    known: known-finding entries for this property (attribution done in-engine by on_path_end)."""
    st = eng.stats
    res['paths'] += st['paths']
    res['obligations'] += st['obligations']
    res['discharged'] += st['discharged']
    res['queries'] += st['queries']
    res['solver_s'] += st['solver_s']
    for rec in path_records:
        if rec['status'] == 'inconclusive':
            res['inconclusive'].append(dict(site=site, why=rec.get('why', '')[:200]))
        for o in rec['obligations']:
            if o['status'] == 'inconclusive':
                res['inconclusive'].append(dict(site=site, ob=o['name'], why=o.get('why', '')[:200]))
            elif o['status'] == 'violated':
                v = dict(site=site, ob=o['name'], inputs=o.get('inputs', {}))
                for k, val in o.items():
                    if k not in ('status', 'name', 'inputs') and not k.startswith('_'):
                        v[k] = val
                res['violations'].append(v)


def site_matches(entry, site):
    import re
    if entry.get('site') is not None and entry['site'] == site:
        return True
    rx = entry.get('site_regex')
    return rx is not None and re.fullmatch(rx, site) is not None


def make_known_attributor(known, site):
    """on_path_end callback: tag violated obligations whose path contains a known witness."""
    ents = [e for e in known if e.get('status', 'known') == 'known' and site_matches(e, site)]

    def cb(eng, rec):
        for o in rec['obligations']:
            if o.get('status') != 'violated' or '_negcond' not in o:
                continue
            for e in ents:
                if e.get('ob') not in (None, o['name']):
                    continue
                if e.get('ob_regex') is not None:
                    import re
                    if not re.fullmatch(e['ob_regex'], o['name']):
                        continue
                if e.get('exc_regex') is not None:
                    import re
                    if not re.search(e['exc_regex'], str(o.get('exc', ''))):
                        continue
                w = e.get('witness', {}).get('inputs')
                if w is None:
                    o['known'] = e['id']
                    break
                if eng.witness_on_path(o, w):
                    o['known'] = e['id']
                    break
    return cb


def _worker(args):
    modname, task = args
    mod = sys.modules.get(modname) or __import__(modname, fromlist=['x'])
    t = time.time()
    try:
        r = mod.run_task(task)
    except BaseException as e:  # harness error, reported as such
        r = new_result(task)
        r['errors'].append("%s: %s\n%s" % (type(e).__name__, e, traceback.format_exc()[-1500:]))
    r['wall_s'] = time.time() - t
    r['twin'] = task.get('twin', False)
    return r


def stable_hash(obj):
    return hashlib.sha1(json.dumps(obj, sort_keys=True, default=str).encode()).hexdigest()[:12]


def run_replays(mod, prop, violations):
    """Replay each violation in a fresh process on unpatched miasm.  Adds 'reproduced', 'detail',
    'replay' (path)."""
    if not violations:
        return
    rdir = os.path.join(VERIF, 'replays', prop)
    os.makedirs(rdir, exist_ok=True)
    for v in violations:
        w = dict(property=prop, site=v['site'], ob=v.get('ob'), witness=v)
        path = os.path.join(rdir, stable_hash(w) + '.json')
        with open(path, 'w') as f:
            json.dump(w, f, indent=1, default=str)
        v['replay'] = path
    paths = [v['replay'] for v in violations]
    # one subprocess for all (fresh interpreter, no stubs installed)
    out = subprocess.run([PY, '-m', 'vf.replay', mod.__name__] + paths, cwd=VERIF,
                         capture_output=True, text=True, timeout=3600)
    verdicts = {}
    for line in out.stdout.splitlines():
        if line.startswith('REPLAY '):
            try:
                d = json.loads(line[7:])
                verdicts[d['path']] = d
            except ValueError:
                pass
    for v in violations:
        d = verdicts.get(v['replay'])
        if d is None:
            v['reproduced'] = None
            v['detail'] = 'replay process gave no verdict: %s' % (out.stderr[-400:],)
        else:
            v['reproduced'] = d['reproduced']
            v['detail'] = d['detail']


def main(mod):
    ap = argparse.ArgumentParser()
    ap.add_argument('--tier', default=os.environ.get('VERIF_TIER', 'quick'),
                    choices=['quick', 'thorough'])
    ap.add_argument('--replay', default=None)
    ap.add_argument('--jobs', type=int, default=int(os.environ.get('VERIF_JOBS', '16')))
    ap.add_argument('--only', default=None, help='substring filter on task ids (debug)')
    a = ap.parse_args()
    prop = mod.PROP
    if a.replay:
        with open(a.replay) as f:
            w = json.load(f)
        ok, detail = mod.replay(w['witness'])
        print("replay property=%s reproduced=%s %s" % (prop, ok, detail))
        sys.exit(1 if ok else 0)
    try:
        seed = int(os.environ.get('VERIF_SEED', '0'))
    except ValueError:
        seed = 0
    t0 = time.time()
    known = load_known(prop)
    tasks = mod.tasks(a.tier, seed)
    twins = mod.twins(a.tier) if hasattr(mod, 'twins') else []
    for t in twins:
        t['twin'] = True
    if a.only:
        tasks = [t for t in tasks if a.only in t['id']]
    all_tasks = sorted(twins + tasks, key=lambda t: -t.get('cost', 0))
    modname = mod.__name__
    if modname == '__main__':
        modname = mod.__spec__.name if getattr(mod, '__spec__', None) else modname
    results = []
    if a.jobs <= 1 or len(all_tasks) <= 1:
        for t in all_tasks:
            results.append(_worker((modname, t)))
    else:
        ctx = mp.get_context('fork')
        with ctx.Pool(min(a.jobs, len(all_tasks)), maxtasksperchild=getattr(mod, 'MAXTASKS', 50)) as pool:
            for r in pool.imap_unordered(_worker, [(modname, t) for t in all_tasks], chunksize=1):
                results.append(r)
    results.sort(key=lambda r: str(r['id']))
    # ---- aggregate
    agg = dict(paths=0, obligations=0, discharged=0, queries=0, solver_s=0.0, nontrivial=0)
    inconclusive, violations, errors, samples = [], [], [], []
    twin_ok, twin_bad = 0, []
    for r in results:
        if r['twin']:
            if r['violations'] and not r['errors']:
                twin_ok += 1
            else:
                twin_bad.append((r['id'], r['errors'][:1]))
            continue
        for k in ('paths', 'obligations', 'discharged', 'queries', 'nontrivial'):
            agg[k] += r.get(k, 0)
        agg['solver_s'] += r['solver_s']
        inconclusive += [dict(task=r['id'], **i) for i in r['inconclusive']]
        for v in r['violations']:
            v['task'] = r['id']
            violations.append(v)
        errors += [(r['id'], e) for e in r['errors']]
        samples += r['samples'][:2]
    # ---- triage violations: known attribution, then replay of the rest (and a sample of known)
    known_by_id = {e['id']: e for e in known}
    new_v = []
    known_hits = {}
    for v in violations:
        kid = v.get('known')
        if kid is None:
            for e in known:
                if e.get('status', 'known') == 'known' and site_matches(e, v['site']) \
                        and e.get('match', 'path') == 'site' and e.get('ob') in (None, v.get('ob')):
                    kid = e['id']
                    break
        if kid is not None and known_by_id.get(kid, {}).get('status', 'known') == 'known':
            known_hits.setdefault(kid, []).append(v)
        else:
            new_v.append(v)
    # dedupe new violations per (site, ob): replay at most 3 per site
    per_site = {}
    to_replay = []
    for v in new_v:
        k = (v['site'], v.get('ob'))
        per_site.setdefault(k, []).append(v)
        if len(per_site[k]) <= 3:
            to_replay.append(v)
    harness_err = []
    if to_replay:
        try:
            run_replays(mod, prop, to_replay)
        except Exception as e:
            harness_err.append("replay failed: %r" % (e,))
    confirmed = [v for v in to_replay if v.get('reproduced') is True]
    not_repro = [v for v in to_replay if v.get('reproduced') is not True]
    confirmed_sites = set((v['site'], v.get('ob')) for v in confirmed)
    # a site whose every replay failed to reproduce is a harness/encoding error
    for k, vs in per_site.items():
        if k not in confirmed_sites:
            d = [v for v in vs if 'detail' in v]
            if getattr(mod, 'NONREPRO', 'harness-error') == 'inconclusive':
                inconclusive.append(dict(task=vs[0].get('task'), site=k[0], ob=k[1],
                                         why="symbolic counterexample did not reproduce concretely: %s"
                                         % (d[0].get('detail') if d else 'not replayed')))
                continue
            harness_err.append("counterexample at %s/%s did not reproduce on unpatched code: %s"
                               % (k[0], k[1], d[0].get('detail') if d else 'not replayed'))
    for tid, e in errors:
        harness_err.append("task %s: %s" % (tid, e))
    if twins and twin_bad:
        harness_err.append("must-fail twin(s) passed (vacuous harness?): %r" % (twin_bad,))
    wall = time.time() - t0
    # ---- report
    for kid, vs in sorted(known_hits.items()):
        print("KNOWN-FINDING: property=%s %s (%d violating path(s); %s)" % (
            prop, known_by_id[kid].get('what', kid), len(vs), kid))
    for i in inconclusive[:20]:
        print("INCONCLUSIVE: property=%s %s" % (prop, json.dumps(i, default=str)[:300]))
    if len(inconclusive) > 20:
        print("INCONCLUSIVE: ... %d more" % (len(inconclusive) - 20))
    seen = set()
    for v in confirmed:
        k = (v['site'], v.get('ob'))
        if k in seen:
            continue
        seen.add(k)
        print("VIOLATION property=%s replay=%s" % (prop, v['replay']))
        print("  site=%s ob=%s inputs=%s :: %s" % (v['site'], v.get('ob'),
                                                  json.dumps(v.get('inputs'), default=str)[:300],
                                                  str(v.get('detail'))[:400]))
    for h in harness_err:
        print("HARNESS-ERROR: property=%s %s" % (prop, h[:1500]))
    meta = mod.META
    ntasks = len([r for r in results if not r['twin']])
    cov = dict(
        evaluations=max(agg['paths'], ntasks),
        distinct_nontrivial=max(agg['nontrivial'], 0),
        rule=meta.get('rule', ''),
        samples=samples[:12] or [t['id'] for t in tasks[:5]],
        obligations=agg['obligations'],
        discharged=agg['discharged'],
        explanation=meta.get('explanation', ''),
        exhaustive=False,
        tasks=ntasks,
        paths=agg['paths'],
        solver_queries=agg['queries'],
        solver_s=round(agg['solver_s'], 2),
        inconclusive=len(inconclusive),
        inconclusive_samples=inconclusive[:10],
        functions_encoded=meta.get('functions', []),
        stubs=meta.get('stubs', []),
        bounds=meta.get('bounds', {}).get(a.tier, meta.get('bounds', {})),
        outside_claim=meta.get('outside', []),
        twins_run=len(twins), twins_violated_as_required=twin_ok,
        known_findings_hit=sorted(known_hits),
        harness_errors=harness_err[:10],
        checker_cmd="bin/check %s --tier %s" % (prop, a.tier),
        trusted_base=meta.get('trusted_base', ["z3 5.1 (overlay venv)", "vf/refsem.py reference semantics",
                                               "vf/symx.py proxy engine"]),
    )
    if mod.LEVEL == 'translation_validation':
        cov['programs'] = ntasks
        cov['disagreements_checked'] = len(to_replay) + sum(len(v) for v in known_hits.values())
    if hasattr(mod, 'extra_coverage'):
        cov.update(mod.extra_coverage(results))
    ev = dict(property_id=prop, tier=a.tier, seed=seed, level=mod.LEVEL, coverage=cov,
              assumptions=meta.get('assumptions', []) + meta.get('stubs', []),
              wall_s=round(wall, 2), violations=len(seen))
    os.makedirs(os.path.join(VERIF, 'evidence'), exist_ok=True)
    with open(os.path.join(VERIF, 'evidence', prop + '.json'), 'w') as f:
        json.dump(ev, f, indent=1, default=str)
    print("%s tier=%s tasks=%d paths=%d obligations=%d discharged=%d inconclusive=%d known=%d "
          "new_violations=%d twins=%d/%d queries=%d solver_s=%.1f wall_s=%.1f" % (
              prop, a.tier, ntasks, agg['paths'], agg['obligations'], agg['discharged'],
              len(inconclusive), sum(len(v) for v in known_hits.values()), len(seen), twin_ok,
              len(twins), agg['queries'], agg['solver_s'], wall))
    slow = sorted(results, key=lambda r: -r.get('wall_s', 0))[:5]
    print("slowest tasks: " + ", ".join("%s=%.1fs/%dp/%dq" % (r['id'], r.get('wall_s', 0), r['paths'], r['queries'])
                                         for r in slow))
    if os.environ.get('VERIF_TIMES'):
        for r in sorted(results, key=lambda r: -r.get('wall_s', 0))[:60]:
            print("TIME %.1fs %dp %dq %s" % (r.get('wall_s', 0), r['paths'], r['queries'], r['id']))
    if seen:
        sys.exit(1)
    if harness_err:
        sys.exit(3)
    sys.exit(0)
