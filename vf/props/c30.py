"""C30 -- assembly CFG edges mirror block constraints.

CBMC-style nondeterministic driver: from an initial AsmCFG built through the API (a fixed list of configurations: which
constraints each of three blocks carries, which blocks are inserted, in which order), K further operations are chosen by
solver variables (operation code and arguments) among add_block / del_block / add_edge / del_edge / "rewrite a block's
bto then rebuild_edges" / merge / rebuild_edges.  After EVERY operation the real object is compared with the invariant
of the property, recomputed from the blocks' bto sets alone:

    edges()            ==  {(b, c.loc_key) | b present, c in b.bto, c.loc_key present}      (each once)
    edges2constraint   ==  the kind of that constraint
    pendings           ==  {c.loc_key -> {(b, kind)} | b present, c in b.bto, c.loc_key absent}
    successors/predecessors lists agree with edges()

Loc keys are hashed by the implementation: every choice concretises, the solver drives an exhaustive enumeration of the
bounded histories (labelled so).
"""
from vf import common

PROP = 'C30'
LEVEL = 'other'
CALL_LIMIT_S = 5

# constraint sets a block may carry: list of (kind, destination index); destination 3 never gets a block (always absent);
# 's' = the block itself, 'n' = next block of the pool (i+1 mod 3), 'p' = previous
BTO_OPTIONS = [
    [],
    [('c_next', 'n')],
    [('c_to', 's')],
    [('c_to', 3)],
    [('c_next', 'n'), ('c_to', 'p')],
    [('c_to', 'n'), ('c_to', 3)],
    [('c_next', 'n'), ('c_to', 's')],
    [('c_to', 'n'), ('c_to', 'n')],            # duplicate constraint (two objects, same destination and kind)
]

META = dict(
    functions=["miasm.core.asmblock.AsmCFG.add_block / del_block / add_edge / add_uniq_edge / del_edge / merge / rebuild_edges / "
               "pendings / copy", "miasm.core.graph.DiGraph.add_node / del_node / add_edge / del_edge (as used by AsmCFG)"],
    stubs=[],
    bounds=dict(quick=dict(blocks=3, absent_destinations=1, initial_configurations=48, symbolic_operations=2),
                thorough=dict(blocks=3, absent_destinations=1, initial_configurations=48, symbolic_operations=3)),
    outside=["edges added by hand to or from a node that has no block (the API then stores an edge without a constraint)",
             "two constraints of one block to the same destination with DIFFERENT kinds (no labelling can satisfy the property; "
             "add_edge asserts)", "blocks shared between two graphs", "histories longer than the bound"],
    assumptions=["an operation that raises AssertionError has refused the call: the invariant must still hold afterwards",
                 "block.bto rewritten by hand is only observed after the following rebuild_edges()"],
    rule="history = initial configuration (concrete, built through the API and checked after every insertion) + K operations chosen "
         "by the solver; non-trivial = history with at least one edge and one pending at some point",
    explanation="Bounded exhaustive exploration (solver-driven enumeration of operation codes and arguments; loc keys are hashed so "
                "nothing stays symbolic) of the real AsmCFG against the edge/constraint/pending invariant recomputed from bto.",
)


def configs():
    """(bto option per block, insertion order)"""
    import random
    rnd = random.Random(30030)
    out = []
    orders = [(), (0,), (0, 1), (1, 0), (0, 1, 2), (2, 1, 0), (1, 2, 0), (2, 0)]
    # every option appears on block 0 with every order at least once, the rest drawn from a fixed stream
    for oi in range(len(BTO_OPTIONS)):
        for k in range(6):
            opts = (oi, rnd.randrange(len(BTO_OPTIONS)), rnd.randrange(len(BTO_OPTIONS)))
            rot = k % 3
            opts = opts[rot:] + opts[:rot]
            out.append((opts, orders[(oi + k) % len(orders)]))
    return out


def tasks(tier, seed):
    K = META['bounds'][tier]['symbolic_operations']
    return [dict(id='cfg:%02d' % i, opts=list(o), order=list(order), K=K, tier=tier) for i, (o, order) in enumerate(configs())]


def twins(tier):
    return [dict(id='twin:invariant-ignores-pendings', opts=[3, 1, 0], order=[0], K=1, tier=tier, bug='expect_no_pendings')]


class World(object):
    def __init__(self):
        from miasm.core.locationdb import LocationDB
        from miasm.core.asmblock import AsmCFG
        self.loc_db = LocationDB()
        self.L = [self.loc_db.add_location(name="L%d" % i) for i in range(4)]
        self.cfg = AsmCFG(self.loc_db)
        self.blocks = [None, None, None]
        self.log = []

    def dst(self, i, d):
        if d == 's':
            return self.L[i]
        if d == 'n':
            return self.L[(i + 1) % 3]
        if d == 'p':
            return self.L[(i + 2) % 3]
        return self.L[d]

    def mk_bto(self, i, opt):
        from miasm.core.asmblock import AsmConstraint
        return set(AsmConstraint(self.dst(i, d), kind) for kind, d in BTO_OPTIONS[opt])

    def mk_block(self, i, opt):
        from miasm.core.asmblock import AsmBlock
        b = AsmBlock(self.loc_db, self.L[i])
        b.bto = self.mk_bto(i, opt)
        return b

    def name(self, lk):
        return self.loc_db.pretty_str(lk)


def invariant_problems(w, cfg, bug=None):
    """list of textual mismatches between the real object and the invariant recomputed from bto"""
    present = {}
    for b in cfg.blocks:
        present[b.loc_key] = b
    exp_edges = {}
    exp_pend = {}
    conflict = False
    for lk, b in present.items():
        for c in b.bto:
            if c.loc_key in present:
                e = (lk, c.loc_key)
                if e in exp_edges and exp_edges[e] != c.c_t:
                    conflict = True
                exp_edges[e] = c.c_t
            else:
                exp_pend.setdefault(c.loc_key, set()).add((lk, c.c_t))
    if conflict:
        return None                                   # outside the claim
    if bug == 'expect_no_pendings':
        exp_pend = {}
    probs = []
    n = w.name
    edges = list(cfg.edges())
    if len(edges) != len(set(edges)):
        probs.append("edges() lists an edge twice: %s" % [(n(a), n(b)) for a, b in edges])
    fmt = lambda es: sorted((n(a), n(b)) for a, b in es)
    if set(edges) != set(exp_edges):
        probs.append("edges() = %s but the constraints with a present destination are %s" % (fmt(edges), fmt(exp_edges)))
    got_lab = {(n(a), n(b)): k for (a, b), k in cfg.edges2constraint.items()}
    exp_lab = {(n(a), n(b)): k for (a, b), k in exp_edges.items()}
    if got_lab != exp_lab:
        probs.append("edges2constraint = %s but the constraints say %s" % (sorted(got_lab.items()), sorted(exp_lab.items())))
    got_p = {n(k): sorted((n(p.waiter.loc_key), p.constraint) for p in v) for k, v in cfg.pendings.items()}
    exp_p = {n(k): sorted((n(a), kk) for a, kk in v) for k, v in exp_pend.items()}
    if got_p != exp_p:
        probs.append("pendings = %s but the constraints with an absent destination are %s" % (sorted(got_p.items()), sorted(exp_p.items())))
    nodes = set(cfg.nodes())
    for a, b in edges:
        if a not in nodes or b not in nodes:
            probs.append("edge (%s, %s) has an end that is not a node" % (n(a), n(b)))
    for lk in present:
        if lk not in nodes:
            probs.append("block %s is registered but is not a node" % n(lk))
    for lk in cfg.nodes():
        if sorted(map(n, cfg.successors(lk))) != sorted(n(b) for a, b in edges if a == lk):
            probs.append("successors(%s) = %s disagree with edges()" % (n(lk), sorted(map(n, cfg.successors(lk)))))
        if sorted(map(n, cfg.predecessors(lk))) != sorted(n(a) for a, b in edges if b == lk):
            probs.append("predecessors(%s) = %s disagree with edges()" % (n(lk), sorted(map(n, cfg.predecessors(lk)))))
    return probs


KINDS = ['c_next', 'c_to']
MERGE_CONFIGS = [((1, 0, 0), (0, 1)), ((3, 5, 0), (1,)), ((2, 4, 1), (2, 0)), ((5, 0, 6), (0, 2))]


def op_list(w):
    """operations applicable in the current state (concrete): list of (code, args)"""
    cfg = w.cfg
    present = [i for i in range(3) if cfg.loc_key_to_block(w.L[i]) is not None]
    ops = []
    for i in range(3):
        if i not in present:
            ops.append(('add_block', (i,)))
    for i in present:
        ops.append(('del_block', (i,)))
    for i in present:
        for j in present:
            for k in KINDS:
                ops.append(('add_edge', (i, j, k)))
    for (a, b) in sorted(set(cfg.edges()), key=lambda e: (w.name(e[0]), w.name(e[1]))):
        ops.append(('del_edge', (w.L.index(a), w.L.index(b))))
    for i in present:
        for o in range(len(BTO_OPTIONS)):
            ops.append(('set_bto_rebuild', (i, o)))
    for m in range(len(MERGE_CONFIGS)):
        ops.append(('merge', (m,)))
    ops.append(('rebuild', ()))
    ops.append(('copy', ()))
    return ops


def apply_op(w, code, args, pending_opts):
    """-> 'ok' | 'refused' ; raises other exceptions"""
    cfg = w.cfg
    try:
        if code == 'add_block':
            i = args[0]
            if w.blocks[i] is None:
                w.blocks[i] = w.mk_block(i, pending_opts[i])
            w.log.append("add_block(L%d bto=%s)" % (i, sorted(c.to_string(w.loc_db) for c in w.blocks[i].bto)))
            cfg.add_block(w.blocks[i])
        elif code == 'del_block':
            w.log.append("del_block(L%d)" % args[0])
            cfg.del_block(cfg.loc_key_to_block(w.L[args[0]]))
        elif code == 'add_edge':
            w.log.append("add_edge(L%d, L%d, %s)" % args)
            cfg.add_edge(w.L[args[0]], w.L[args[1]], args[2])
        elif code == 'del_edge':
            w.log.append("del_edge(L%d, L%d)" % args)
            cfg.del_edge(w.L[args[0]], w.L[args[1]])
        elif code == 'set_bto_rebuild':
            i, o = args
            blk = cfg.loc_key_to_block(w.L[i])
            blk.bto = w.mk_bto(i, o)
            w.log.append("L%d.bto = %s ; rebuild_edges()" % (i, sorted(c.to_string(w.loc_db) for c in blk.bto)))
            cfg.rebuild_edges()
        elif code == 'merge':
            from miasm.core.asmblock import AsmCFG
            opts, order = MERGE_CONFIGS[args[0]]
            other = AsmCFG(w.loc_db)
            for i in order:
                other.add_block(w.mk_block(i, opts[i]))
            w.log.append("merge(graph of fresh blocks %s)" % ", ".join(
                "L%d bto=%s" % (i, sorted(c.to_string(w.loc_db) for c in other.loc_key_to_block(w.L[i]).bto)) for i in order))
            cfg.merge(other)
        elif code == 'rebuild':
            w.log.append("rebuild_edges()")
            cfg.rebuild_edges()
        elif code == 'copy':
            w.log.append("cfg = cfg.copy()")
            w.cfg = cfg.copy()
        else:
            raise ValueError(code)
    except AssertionError:
        w.log[-1] += " -> AssertionError"
        return 'refused'
    return 'ok'


def run_history(task_desc, pick, bug=None, on_problem=None):
    """Shared by the symbolic driver and the replay.  pick(k, n) -> index of the k-th operation among n.
    Returns (problem text or None, log, nontrivial)."""
    from vf.simpharness import time_limit
    w = World()
    opts = task_desc['opts']
    nontrivial = False

    def check(step):
        probs = invariant_problems(w, w.cfg, bug)
        if probs is None:
            return 'conflict'
        if probs:
            return "after %s: %s" % (step, " ; ".join(probs[:3]))
        return None
    for i in task_desc['order']:
        with time_limit(CALL_LIMIT_S):
            apply_op(w, 'add_block', (i,), opts)
        p = check(w.log[-1])
        if p == 'conflict':
            return None, w.log, False
        if p:
            return p, w.log, nontrivial
    for k in range(task_desc['K']):
        ops = op_list(w)
        code, args = ops[pick(k, len(ops))]
        try:
            with time_limit(CALL_LIMIT_S):
                apply_op(w, code, args, opts)
        except Exception as ex:
            return "%s raised %s: %s" % (w.log[-1] if w.log else code, type(ex).__name__, ex), w.log, nontrivial
        p = check(w.log[-1])
        if p == 'conflict':
            return None, w.log, nontrivial
        if p:
            return p, w.log, nontrivial
        if w.cfg.edges() and w.cfg.pendings:
            nontrivial = True
    return None, w.log, nontrivial


def run_task(task):
    import builtins
    import time
    import z3
    from vf.symx import Engine
    res = common.new_result(task)
    eng = Engine(timeout_ms=10000, max_paths=2000000)
    eng.deadline = time.time() + (200 if task['tier'] == 'quick' else 5000)
    eng.on_path_end = common.make_known_attributor(common.load_known(PROP), task['id'])
    desc = dict(opts=task['opts'], order=task['order'], K=task['K'])
    nontriv = [0]

    def fn(eng):
        def pick(k, n):
            v = builtins.int(eng.fresh_int('op%d' % k, 0, n - 1))
            if v >= n:
                # AsmConstraint objects hash by identity: the iteration order of a bto set, hence the list of applicable
                # operations, can differ between two executions of the same prefix.  Never a crash, never a verdict.
                from vf.symx import Inconclusive
                raise Inconclusive("re-execution of the history prefix diverged (identity-hashed constraint sets)")
            return v
        prob, log, nt = run_history(desc, pick, task.get('bug'))
        if nt:
            nontriv[0] += 1
        eng.oblige('edges-mirror-constraints', z3.BoolVal(prob is None), dict(log=log, mismatch=prob))
    recs = eng.explore(fn)
    common.absorb_engine(res, eng, recs, task['id'])
    for v in res['violations']:
        v['task_desc'] = desc
    res['nontrivial'] = nontriv[0]
    res['samples'] = ["blocks with bto options %s inserted in order %s, then %d operations: %d histories" % (
        task['opts'], task['order'], task['K'], eng.stats['paths'])]
    return res


def replay(w):
    desc = w['task_desc']
    inp = w['inputs']
    prob, log, _ = run_history(desc, lambda k, n: min(inp.get('op%d' % k, 0), n - 1))
    if prob:
        return True, "history %s: %s" % (" ; ".join(log), prob)
    return False, "history %s keeps edges, labels and pendings in step with bto" % " ; ".join(log)


if __name__ == '__main__':
    from vf.props import c30
    common.main(c30)
