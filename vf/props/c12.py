"""C12 -- symbolic execution is a sound abstraction of concrete execution.

The real SymbolicExecutionEngine.eval_updt_irblock runs on (i) generated IR blocks (parallel assignments, swaps,
loads/stores of several sizes on two symbolic bases, slices of loaded values, misaligned re-loads) and (ii) IR
lifted by the real lifters from assembled instructions of every architecture.  Its final state (register
expressions, memory cells, destination) is compared by z3, for ALL initial register and memory contents that
satisfy the documented non-aliasing assumption, with a direct execution of the same IR (vf/irsym.py).
"""
import itertools
import random

from vf import common

PROP = 'C12'
LEVEL = 'other'
CHUNK = 20

META = dict(
    functions=["miasm.ir.symbexec.SymbolicExecutionEngine.eval_updt_irblock / eval_updt_assignblk / eval_assignblk / "
               "eval_expr / eval_expr_visitor / apply_change / mem_read / mem_write", "SymbolMngr, MemSparse, MemArray (read, "
               "write, memory)", "expr_simp_explicit (as used by the engine)", "the real lifters (get_ir of each listed "
               "mnemonic) for the lifted programs"],
    stubs=["generated programs use a mock lifter object (addrsize / IRDst only)"],
    bounds=dict(quick=dict(generated_blocks=700, assignblocks_per_block="1..6", assignments_per_assignblock="1..3",
                           lifted="curated mnemonics of x86_32 x86_64 arml armtl aarch64l mips32l ppc32b msp430 mepl + x86_32 "
                                  "multi-instruction sequences", query_timeout_s=20),
                thorough=dict(generated_blocks=12000, assignblocks_per_block="1..6", assignments_per_assignblock="1..3",
                              lifted="same", query_timeout_s=60)),
    outside=["run_at over several blocks (only single blocks / straight-line sequences)", "generated blocks with two memory "
             "stores in one AssignBlock (overlapping parallel stores have no defined order)", "instructions the lifters do not "
             "support", "FP and other operators without fixed meaning are uninterpreted on both sides"],
    assumptions=["non-aliasing: byte ranges accessed through different symbolic bases are pairwise disjoint (hypotheses "
                 "collected by tracing the pointers of every access)", "memory: little-endian flat byte space, pointer wrap at "
                 "its width"],
    rule="program = one IR block; the quantifier over initial states is discharged by z3; non-trivial = block with at "
         "least one memory access",
    explanation="For each program: registers, memory (for a symbolic probe address) and destination of the engine's final "
                "state, read back over the initial state through refsem, are proved equal to direct parallel-assignment "
                "execution for all initial values under the non-aliasing hypotheses.",
)


class MockLifter(object):
    addrsize = 32

    def __init__(self, loc_db):
        from miasm.expression.expression import ExprId
        self.loc_db = loc_db
        self.IRDst = ExprId('IRDst', 32)


# ------------------------------------------------------------------ generated programs
def gen_program(rnd):
    """Returns a list of assignblocks, each a list of (dst_src, src_src) python-source pairs."""
    R = ['a', 'b', 'c']
    Bs = ['B1', 'B2']
    ks = [0, 1, 2, 3, 4, 6, 8, 0xFFFFFFFF, 0xFFFFFFFE]

    def reg(n):
        return "ExprId(%r, 32)" % n

    def ptr():
        c = rnd.random()
        if c < 0.75:
            return "ExprOp('+', %s, ExprInt(0x%x, 32))" % (reg(rnd.choice(Bs)), rnd.choice(ks))
        if c < 0.85:
            return reg(rnd.choice(Bs))
        if c < 0.93:
            return "ExprOp('+', %s, ExprInt(0x%x, 32))" % (reg(rnd.choice(R)), rnd.choice(ks))
        return "ExprInt(0x%x, 32)" % rnd.choice([0x1000, 0x1002, 0xFFFFFFFE])

    def mem(sz):
        return "ExprMem(%s, %d)" % (ptr(), sz)

    def expr(sz, depth=0):
        c = rnd.random()
        if sz == 32:
            if c < 0.25:
                return reg(rnd.choice(R))
            if c < 0.45:
                return mem(32)
            if c < 0.55:
                return "ExprInt(0x%x, 32)" % rnd.choice([0, 1, 0x11223344, 0xFFFFFFFF])
            if c < 0.75 and depth < 2:
                return "ExprOp(%r, %s, %s)" % (rnd.choice(['+', '^', '&', '|', '>>', '<<']), expr(32, depth + 1), expr(32, depth + 1))
            if c < 0.85:
                return "ExprCompose(%s, %s)" % (expr(16, depth + 1), expr(16, depth + 1))
            if c < 0.92:
                return "ExprOp('zeroExt_32', %s)" % expr(rnd.choice([8, 16]), depth + 1)
            return "ExprCond(%s, %s, %s)" % (reg(rnd.choice(R)), reg(rnd.choice(R)), mem(32))
        if sz == 16:
            if c < 0.4:
                s = rnd.choice([0, 8, 16])
                return "ExprSlice(%s, %d, %d)" % (reg(rnd.choice(R)), s, s + 16)
            if c < 0.7:
                return mem(16)
            s = rnd.choice([0, 8, 16])
            return "ExprSlice(%s, %d, %d)" % (mem(32), s, s + 16)
        if c < 0.4:
            s = rnd.choice([0, 8, 16, 24])
            return "ExprSlice(%s, %d, %d)" % (reg(rnd.choice(R)), s, s + 8)
        if c < 0.7:
            return mem(8)
        s = rnd.choice([0, 8, 16, 24])
        return "ExprSlice(%s, %d, %d)" % (mem(32), s, s + 8)
    prog = []
    for _ in range(rnd.randint(1, 6)):
        ab = []
        used = set()
        for _ in range(rnd.randint(1, 3)):
            if rnd.random() < 0.5:
                d = rnd.choice(R)
                if d in used:
                    continue
                used.add(d)
                ab.append((reg(d), expr(32)))
            else:
                sz = rnd.choice([8, 16, 32, 32])
                st = (mem(sz), expr(sz))
                # one store per AssignBlock: two parallel stores may overlap (@16[B2] and @32[B2 - 2]), and the effect of
                # overlapping parallel assignments is not defined (the engine and a reference may order them differently)
                if not any(d_.startswith('ExprMem') for d_, _ in ab):
                    ab.append(st)
        if rnd.random() < 0.15:
            x, y = rnd.sample(R, 2)
            ab = [(reg(x), reg(y)), (reg(y), reg(x))]
        if ab:
            prog.append(ab)
    last = "ExprCond(%s, ExprInt(0x1000, 32), ExprInt(0x2000, 32))" % reg(rnd.choice(R)) if rnd.random() < 0.5 \
        else "ExprInt(0x3000, 32)"
    prog.append([("ExprId('IRDst', 32)", last)])
    return prog


LIFTED = {
    'x86_32': ["MOV EAX, DWORD PTR [ESI+4]", "MOV DWORD PTR [EDI], EAX", "MOV BYTE PTR [ESI], AH", "ADD EAX, EBX", "ADC EAX, EBX",
               "SUB EAX, DWORD PTR [ESP+8]", "XCHG EAX, EBX", "PUSH EAX", "POP EBX", "LEA EAX, DWORD PTR [EBX+ECX*4+8]",
               "SHL EAX, CL", "SAR EAX, 3", "ROL EAX, CL", "IMUL EAX, EBX", "MOVZX EAX, BYTE PTR [ESI]", "MOVSX EAX, BX",
               "CMP EAX, EBX", "TEST EAX, EAX", "JZ 0x30", "JL 0x30", "JA 0x30", "CALL 0x40", "RET", "CMOVZ EAX, EBX", "SETL AL",
               "NEG EAX", "NOT EAX", "INC DWORD PTR [ESI]", "XADD DWORD PTR [ESI], EAX", "BSWAP EAX", "CDQ", "MOVSB", "STOSD",
               "BT EAX, EBX", "SHLD EAX, EBX, 4", "MUL EBX", "LEAVE", "PUSHFD"],
    'x86_64': ["MOV RAX, QWORD PTR [RSI+8]", "MOV DWORD PTR [RDI], EAX", "ADD RAX, RBX", "PUSH RAX", "POP RBX", "MOV EAX, EBX",
               "LEA RAX, QWORD PTR [RBX+RCX*8]", "MOVSXD RAX, EBX", "CMP RAX, RBX", "JG 0x30", "SHR RAX, CL", "XCHG RAX, RBX",
               "IMUL RAX, RBX, 3", "MOVZX EAX, WORD PTR [RSI]"],
    'arml': ["ADD R0, R1, R2", "ADDS R0, R1, R2", "LDR R0, [R1, 4]", "STR R0, [R1, 4]!", "LDRB R0, [R1], 1", "MOV R0, R1 LSL 2",
             "SUBS R0, R0, 1", "CMP R0, R1", "BEQ 0x30", "BL 0x40", "PUSH {R0, R1, LR}", "POP {R0, R1, PC}", "MVN R0, R1",
             "AND R0, R1, R2 LSR R3", "RSB R0, R1, 0", "MUL R0, R1, R2", "LDRH R0, [R1, 2]", "STRB R0, [R1]", "ADC R0, R1, R2",
             "MOVEQ R0, R1", "UXTB R0, R1", "LDM R0, {R1, R2}", "STMDB SP!, {R4, R5}"],
    'armtl': ["ADDS R0, R1, R2", "LDR R0, [R1, 4]", "STR R0, [SP, 8]", "PUSH {R4, LR}", "POP {R4, PC}", "CMP R0, 3", "LSLS R0, R1, 2",
              "MOVS R0, 1", "BX LR"],
    'aarch64l': ["ADD X0, X1, X2", "ADDS W0, W1, W2", "LDR X0, [X1, 8]", "STR W0, [X1, 4]", "LDP X0, X1, [SP], 16",
                 "STP X29, X30, [SP, -16]!", "SUBS X0, X0, 1", "CMP X0, X1", "CSEL X0, X1, X2, EQ", "LSL X0, X1, 3", "MOV W0, W1",
                 "LDRB W0, [X1]", "SXTW X0, W1", "AND X0, X1, 0xFF", "MADD X0, X1, X2, X3", "UBFX X0, X1, 4, 8"],
    'mips32l': ["ADDU V0, A0, A1", "LW V0, 4(A0)", "SW V0, 8(SP)", "LB V0, 1(A0)", "SB V0, 0(A0)", "SLL V0, A0, 2", "SLT V0, A0, A1",
                "LUI V0, 0x1234", "ORI V0, V0, 0x5678", "ADDIU SP, SP, 0xFFFFFFF0", "XOR V0, A0, A1", "SRA V0, A0, 3", "LHU V0, 2(A0)",
                "MUL V0, A0, A1", "SLTIU V0, A0, 5"],
    'ppc32b': ["ADD R3, R4, R5", "LWZ R3, 4(R4)", "STW R3, 8(R1)", "ADDI R3, R4, 16", "RLWINM R3, R4, 2, 0, 29", "CMPW R3, R4",
               "LBZ R3, 1(R4)", "STB R3, 0(R4)", "OR R3, R4, R5", "SUBF R3, R4, R5", "SLW R3, R4, R5", "LHZ R3, 2(R4)", "MULLW R3, R4, R5",
               "EXTSB R3, R4", "NEG R3, R4"],
    'msp430': ["mov.w R4, R5", "add.w R4, R5", "mov.w @R4, R5", "mov.w R5, 2(R4)", "sub.w R4, R5", "and.w R4, R5", "xor.w R4, R5",
               "mov.b @R4, R5", "push.w R4", "cmp.w R4, R5", "rra.w R4", "swpb R4", "inc.w R4", "bis.w R4, R5"],
    'mepl': ["ADD3 R1, R2, R3", "LW R1, (R2)", "SW R1, (R2)", "MOV R1, R2", "SUB R1, R2", "AND R1, R2", "SLL R1, R2", "LB R1, (R2)",
             "SB R1, (R2)", "ADD R1, 4", "NEG R1, R2", "SLT3 R0, R1, R2", "EXTB R1", "LH R1, (R2)", "XOR R1, R2"],
}

X86_SEQ = [
    ["MOV EAX, DWORD PTR [ESI]", "MOV BYTE PTR [ESI], AH"],
    ["MOV EAX, DWORD PTR [ESI]", "SHR EAX, 8", "MOV WORD PTR [ESI], AX"],
    ["MOV ECX, DWORD PTR [ESI+8]", "MOV DWORD PTR [EDI], ECX", "MOV ECX, DWORD PTR [ESI+12]", "MOV DWORD PTR [EDI+4], ECX",
     "MOV EDX, DWORD PTR [EDI+2]"],
    ["PUSH EAX", "PUSH EBX", "POP EAX", "POP EBX"],
    ["MOV DWORD PTR [ESP+4], EAX", "MOV AL, BYTE PTR [ESP+5]", "MOV BYTE PTR [ESP+7], AL", "MOV EBX, DWORD PTR [ESP+4]"],
    ["MOV EAX, DWORD PTR [ESI]", "MOV DWORD PTR [ESI], EAX", "MOV EBX, DWORD PTR [ESI+2]"],
    ["XCHG EAX, EBX", "XCHG EBX, ECX", "ADD EAX, ECX"],
    ["MOV WORD PTR [EDI], AX", "MOV WORD PTR [EDI+2], BX", "MOV ECX, DWORD PTR [EDI]", "MOV DL, BYTE PTR [EDI+1]"],
    ["MOV EAX, DWORD PTR [ESI+4]", "MOV DWORD PTR [ESI+1], EAX", "MOV EBX, DWORD PTR [ESI]", "MOV ECX, DWORD PTR [ESI+3]"],
    ["PUSH DWORD PTR [ESP]", "POP DWORD PTR [ESP+4]", "MOV EAX, DWORD PTR [ESP+2]"],
]


def tasks(tier, seed):
    b = META['bounds'][tier]
    rnd = random.Random(seed * 7919 + 13)
    progs = [('gen:%05d' % i, 'gen', gen_program(rnd)) for i in range(b['generated_blocks'])]
    for arch, lst in sorted(LIFTED.items()):
        for i, txt in enumerate(lst):
            progs.append(('lift:%s:%s' % (arch, txt), 'lift', (arch, [txt])))
    for i, seq in enumerate(X86_SEQ):
        progs.append(('liftseq:x86_32:%d' % i, 'lift', ('x86_32', seq)))
    ts = []
    for i in range(0, len(progs), CHUNK):
        ts.append(dict(id='c12:%05d' % i, progs=progs[i:i + CHUNK], tier=tier))
    return ts


def twins(tier):
    prog = [[("ExprId('a', 32)", "ExprId('b', 32)"), ("ExprId('b', 32)", "ExprId('a', 32)")],
            [("ExprId('IRDst', 32)", "ExprInt(0x3000, 32)")]]
    return [dict(id='twin:sequential-oracle', progs=[('twin', 'gen', prog)], tier=tier, bug='sequential')]


def build_block(kind, payload):
    """-> (lifter, irblock, loc_db)"""
    from miasm.core.locationdb import LocationDB
    from miasm.ir.ir import IRBlock, AssignBlock
    from vf.trharness import mk_env
    loc_db = LocationDB()
    if kind == 'gen':
        env = mk_env()
        abs_ = []
        for ab in payload:
            abs_.append(AssignBlock({eval(d, dict(env)): eval(s, dict(env)) for d, s in ab}))
        lifter = MockLifter(loc_db)
        return lifter, IRBlock(loc_db, loc_db.add_location(), abs_), loc_db
    arch, texts = payload
    from miasm.analysis.machine import Machine
    m = Machine(arch)
    lifter = m.lifter(loc_db)
    attrib = {'x86_32': 32, 'x86_64': 64, 'arml': 'l', 'armtl': 'l', 'aarch64l': 'l', 'mips32l': 'l', 'ppc32b': 'b',
              'msp430': None, 'mepl': 'l'}[arch]
    off = 0x10
    abs_ = []
    for txt in texts:
        try:
            instr = m.mn.fromstring(txt, loc_db, attrib)
            code = m.mn.asm(instr, loc_db)[0] if arch != 'msp430' else m.mn.asm(instr)[0]
        except Exception as ex:
            raise NotImplementedError("assembler rejects %r: %s" % (txt, ex))
        instr = m.mn.dis(code, attrib, 0)
        instr.offset = off
        ircfg = lifter.new_ircfg()
        lifter.add_instr_to_ircfg(instr, ircfg)
        blk = ircfg.get_block(loc_db.get_offset_location(off))
        if blk is None:
            raise LookupError("no IR block for %s" % txt)
        abs_ += list(blk)
        off += instr.l
    return lifter, IRBlock(loc_db, loc_db.add_location(), abs_), loc_db


def check_program(kind, payload, timeout_s, bug=None):
    """-> dict(status, ...)"""
    import z3
    from miasm.expression.expression import ExprMem
    from miasm.ir.symbexec import SymbolicExecutionEngine, get_expr_base_offset
    from vf.refsem import Ref
    from vf import irsym
    lifter, blk, loc_db = build_block(kind, payload)
    # --- the code under test
    eng = SymbolicExecutionEngine(lifter)
    dst = eng.eval_updt_irblock(blk)
    # --- pointer trace for the non-aliasing hypotheses (a second engine, stepped assignblock by assignblock)
    tracer = SymbolicExecutionEngine(lifter)
    accesses = []       # (ptr Expr over the initial state, size)

    def note_reads(e, cache):
        def cb(x):
            if x.is_mem():
                accesses.append((tracer.eval_expr(x.ptr), x.size))
            return x
        e.visit(cb)
    for ab in blk:
        for d, s in ab.items():
            note_reads(s, None)
            if d.is_mem():
                note_reads(d.ptr, None)
                accesses.append((tracer.eval_expr(d.ptr), d.size))
        tracer.eval_updt_assignblk(ab)
    # --- direct execution
    ref0 = Ref()
    ref0.loc_db = loc_db
    st = irsym.State(ref0)
    if bug == 'sequential':
        from miasm.ir.ir import AssignBlock
        for ab in blk:
            for d, s in ab.items():
                irsym.exec_assignblk(st, AssignBlock({d: s}))
    else:
        for ab in blk:
            irsym.exec_assignblk(st, ab)
    # --- hypotheses
    hyp = []
    groups = {}
    for ptr, size in accesses:
        b, off = get_expr_base_offset(ptr)
        groups.setdefault(b, []).append((ptr, size))
    keys = list(groups)
    exn = irsym.Exec(irsym.State(ref0))
    for b1, b2 in itertools.combinations(keys, 2):
        for (p1, s1), (p2, s2) in itertools.product(groups[b1], groups[b2]):
            z1, z2 = ref0.tr(p1), ref0.tr(p2)
            for i in range(s1 // 8):
                for j in range(s2 // 8):
                    hyp.append(irsym.a64_of(z1, p1.size, i) != irsym.a64_of(z2, p2.size, j))
    # --- obligations
    obs = []
    regs = set()
    for ab in blk:
        for d in ab:
            if d.is_id():
                regs.add(d)
    regs.add(lifter.IRDst)
    for r in sorted(regs, key=str):
        obs.append(('reg:%s' % r, ref0.tr(eng.symbols.read(r)) == st.reg(r.name, r.size)))
    obs.append(('destination', ref0.tr(dst) == st.reg(lifter.IRDst.name, lifter.IRDst.size)))
    probe = z3.BitVec('probe_addr', 64)
    em = ref0.mem(probe)
    cells = list(eng.symbols.memory())
    for mem, val in cells:
        pz = ref0.tr(mem.ptr)
        vz = ref0.tr(val)
        for i in range(mem.size // 8):
            em = z3.If(probe == irsym.a64_of(pz, mem.ptr.size, i), z3.Extract(8 * i + 7, 8 * i, vz), em)
    obs.append(('memory', em == st.load(probe)))
    out = dict(nob=0, ndis=0, viol=[], inc=[], nontrivial=bool(accesses), desc=str(blk)[:600])
    s = z3.Solver()
    s.set('timeout', timeout_s * 1000)
    if hyp:
        s.add(*hyp)
    for name, f in obs:
        out['nob'] += 1
        s.push()
        s.add(z3.Not(f))
        r = s.check()
        if r == z3.unsat:
            out['ndis'] += 1
        elif r == z3.unknown:
            out['inc'].append(name)
        else:
            m = s.model()
            ids = {k[0]: m.eval(v, model_completion=True).as_long() for k, v in ref0.ids.items()}
            out['viol'].append(dict(ob=name, inputs=ids, ids=ids, block=str(blk)[:800],
                                    engine_state=str(dict(eng.symbols))[:600]))
        s.pop()
    return out


def run_task(task):
    import time
    res = common.new_result(task)
    known = [k for k in common.load_known(PROP) if k.get('status', 'known') == 'known']
    tmo = META['bounds'][task['tier']]['query_timeout_s']
    t0 = time.time()
    for pid, kind, payload in task['progs']:
        try:
            out = check_program(kind, payload, tmo, task.get('bug'))
        except NotImplementedError as ex:
            res['samples'].append("%s: not supported by the lifter (%s)" % (pid, ex))
            continue
        except Exception as ex:
            import traceback
            res['obligations'] += 1
            res['violations'].append(dict(site=pid, ob='no-exception', kind=kind, payload=payload, inputs={},
                                          exc="%s: %s" % (type(ex).__name__, ex), tb=traceback.format_exc()[-700:]))
            continue
        res['obligations'] += out['nob']
        res['discharged'] += out['ndis']
        res['queries'] += out['nob']
        res['nontrivial'] += 1 if out['nontrivial'] else 0
        for v in out['viol']:
            v.update(site=pid, kind=kind, payload=payload)
            for k in known:
                if common.site_matches(k, pid):
                    v['known'] = k['id']
            res['violations'].append(v)
        for x in out['inc']:
            res['inconclusive'].append(dict(site=pid, why=x))
        if len(res['samples']) < 2:
            res['samples'].append(out['desc'])
    res['solver_s'] = time.time() - t0
    res['paths'] = len(task['progs'])
    return res


def replay(w):
    """Fresh process, unpatched code: re-decide the program and report the concrete initial state."""
    kind, payload = w['kind'], w['payload']
    if kind == 'lift':
        payload = (payload[0], list(payload[1]))
    if w.get('ob') == 'no-exception':
        try:
            check_program(kind, payload, 20)
        except Exception as ex:
            return True, "%r raised %r" % (payload, ex)
        return False, "no exception"
    out = check_program(kind, payload, 30)
    for v in out['viol']:
        if v['ob'] == w['ob']:
            return True, "block:\n%s\nengine final state %s disagrees with direct execution on %s for initial values %r" % (
                v['block'], v['engine_state'], v['ob'], v['inputs'])
    return False, "engine and direct execution agree"


if __name__ == '__main__':
    from vf.props import c12
    common.main(c12)
