"""C29 -- the bounded cache dictionary keeps its size and callback contract.

Inductive one-step check: the pre-state is ARBITRARY within the representation invariant -- any subset of a small
key pool is held, and every use counter is a SYMBOLIC integer >= 1 -- then one operation (insert / update / lookup /
delete / membership / destruction) with any key runs on the real BoundedDict; z3 decides that the post-state is the
model's post-state (values, use counters, size), that an eviction happens only for a new key at the limit and
keeps the most used keys, and that the deletion callback fired exactly for the dropped keys.  One inductive step
covers histories of any length.  Short concrete-key histories from the empty dictionary validate the invariant.
"""
import builtins
import itertools

from vf import common

PROP = 'C29'
LEVEL = 'other'
POOL = ['a', 'b', 'c', 'd']

META = dict(
    functions=["miasm.core.utils.BoundedDict.__init__ / __setitem__ / __getitem__ / __delitem__ / __contains__ / has_key / keys / "
               "data / __del__"],
    stubs=["pre-state installed by assigning the private fields (_data, _counter, _size) of a freshly built BoundedDict: the "
           "representation invariant assumed is keys(_data) == keys(_counter), _size == len(_data) < max_size, counters >= 1"],
    bounds=dict(quick=dict(max_size=[2, 3, 4], min_size=[None, 1, 2, 3], key_pool=POOL, counter_range=[1, 1000],
                           history_check_steps=4),
                thorough=dict(max_size=[2, 3, 4, 5], min_size=[None, 1, 2, 3, 4], key_pool=POOL + ['e'], counter_range=[1, 10 ** 6],
                              history_check_steps=5)),
    outside=["max_size above 5", "max_size < 3 with the default min_size (max_size // 3 == 0)", "keys that are not hashable / mutable keys", "initialdata given to the constructor"],
    assumptions=["'keeps the most used keys' = every kept key has a use count >= every evicted key's (ties may be broken "
                 "either way)", "use count = 1 at insertion, +1 per update or lookup, reset to 1 for the survivors of an eviction"],
    rule="(max, min, held subset, operation, key) enumerated; use counters symbolic; path = one ordering of the counters; "
         "non-trivial = step that evicts or deletes",
    explanation="One inductive step from an arbitrary valid state (symbolic use counters) against a refinement model, plus "
                "bounded histories from the empty dictionary that confirm the invariant is the reachable one.",
)


def tasks(tier, seed):
    b = META['bounds'][tier]
    ts = []
    pool = b['key_pool']
    for mx in b['max_size']:
        for mn in b['min_size']:
            if mn is not None and mn > mx:
                continue
            if eff_min(mx, mn) < 1:
                continue        # max_size < 3 with the default min_size (max_size // 3 == 0): degenerate, outside the claim
            ts.append(dict(kind='step', mx=mx, mn=mn, tier=tier, id='step:max%d:min%s' % (mx, mn)))
    for mx in (3, 4):
        ts.append(dict(kind='hist', mx=mx, mn=None, K=b['history_check_steps'], tier=tier, id='hist:max%d' % mx))
        ts.append(dict(kind='hist', mx=mx, mn=2, K=b['history_check_steps'], tier=tier, id='hist:max%d:min2' % mx))
    return ts


def twins(tier):
    return [dict(kind='step', mx=3, mn=2, tier=tier, id='twin:keep-least-used', bug='least_used')]


def zb(c):
    import z3
    from vf.symx import SymBool
    return c.z if isinstance(c, SymBool) else z3.BoolVal(bool(c))


def eff_min(mx, mn):
    return mn if mn else mx // 3


def run_task(task):
    import z3
    import time
    from vf.symx import Engine, lift
    from miasm.core.utils import BoundedDict
    res = common.new_result(task)
    b = META['bounds'][task['tier']]
    eng = Engine(timeout_ms=10000, max_paths=100000)
    eng.deadline = time.time() + (150 if task['tier'] == 'quick' else 1500)
    eng.on_path_end = common.make_known_attributor(common.load_known(PROP), task['id'])
    pool = b['key_pool']
    mx, mn = task['mx'], task['mn']
    bug = task.get('bug')
    nt = [0]
    OPS = ['set', 'get', 'del', 'contains', 'destroy']

    def step(eng):
        held_mask = builtins.int(eng.fresh_int('held', 0, (1 << len(pool)) - 1))
        held = [k for i, k in enumerate(pool) if held_mask >> i & 1]
        if len(held) >= mx:
            return                          # invariant: _size < max_size after every operation
        op = eng.choose('op', OPS)
        key = eng.choose('key', pool)
        cnt = {k: eng.fresh_int('cnt_%s' % k, b['counter_range'][0], b['counter_range'][1]) for k in held}
        calls = []
        bd = BoundedDict(mx, mn, delete_cb=calls.append)
        bd._data = {k: "v_" + k for k in held}
        bd._counter = dict(cnt)
        bd._size = len(held)
        m_data = dict(bd._data)
        m_cnt = dict(cnt)
        exc = None
        ret = None
        try:
            if op == 'set':
                bd[key] = "new"
            elif op == 'get':
                ret = bd[key]
            elif op == 'del':
                del bd[key]
            elif op == 'contains':
                ret = (key in bd, bd.has_key(key), sorted(bd.keys()))
            else:
                bd.__del__()
        except KeyError as e:
            exc = 'KeyError'
        except Exception as e:
            eng.fail('no-exception', dict(exc="%s: %s" % (type(e).__name__, e), held=held, opname=op, keyname=key))
            return
        tag = "%s(%s) on %s" % (op, key, held)
        extra = dict(held=held, opname=op, keyname=key)
        # ---- model
        if op == 'set':
            if key in m_data:
                exp_data = dict(m_data, **{key: "new"})
                exp_cnt = dict(m_cnt, **{key: m_cnt[key] + 1})
                exp_calls = []
                eng.oblige('update-no-eviction', z3.BoolVal(sorted(bd._data) == sorted(exp_data)), extra)
            elif len(m_data) + 1 >= mx:
                nt[0] += 1
                keep_n = min(max(eff_min(mx, mn) - 1, 0), len(m_data))
                kept = [k for k in m_data if k in bd._data]
                evicted = [k for k in m_data if k not in bd._data]
                eng.oblige('eviction-keeps-min_size-1', z3.BoolVal(len(kept) == keep_n and key in bd._data and
                                                                   set(bd._data) <= set(m_data) | {key}), extra)
                conds = [zb(m_cnt[k] >= m_cnt[e]) if bug != 'least_used' else zb(m_cnt[k] <= m_cnt[e])
                         for k in kept for e in evicted]
                eng.oblige('eviction-keeps-most-used', z3.And(*conds) if conds else z3.BoolVal(True), extra)
                eng.oblige('callback-exactly-evicted', z3.BoolVal(sorted(calls) == sorted(evicted)), extra)
                exp_data = {k: m_data[k] for k in kept}
                exp_data[key] = "new"
                exp_cnt = {k: 1 for k in exp_data}
                exp_calls = sorted(evicted)
            else:
                exp_data = dict(m_data, **{key: "new"})
                exp_cnt = dict(m_cnt, **{key: 1})
                exp_calls = []
            eng.oblige('no-exception-on-set', z3.BoolVal(exc is None), extra)
        elif op == 'get':
            exp_data, exp_calls = m_data, []
            if key in m_data:
                exp_cnt = dict(m_cnt, **{key: m_cnt[key] + 1})
                eng.oblige('get-returns-last-value', z3.BoolVal(exc is None and ret == m_data[key]), extra)
            else:
                exp_cnt = m_cnt
                eng.oblige('get-missing-raises-keyerror', z3.BoolVal(exc == 'KeyError'), extra)
        elif op == 'del':
            if key in m_data:
                nt[0] += 1
                exp_data = {k: v for k, v in m_data.items() if k != key}
                exp_cnt = {k: v for k, v in m_cnt.items() if k != key}
                exp_calls = [key]
                eng.oblige('del-no-exception', z3.BoolVal(exc is None), extra)
            else:
                exp_data, exp_cnt, exp_calls = m_data, m_cnt, []
                eng.oblige('del-missing-raises-keyerror', z3.BoolVal(exc == 'KeyError'), extra)
        elif op == 'contains':
            exp_data, exp_cnt, exp_calls = m_data, m_cnt, []
            eng.oblige('membership', z3.BoolVal(ret == (key in m_data, key in m_data, sorted(m_data))), extra)
        else:
            exp_data, exp_cnt = m_data, m_cnt
            exp_calls = sorted(m_data)
        # ---- refinement: post-state == model post-state
        eng.oblige('post-values', z3.BoolVal(bd._data == exp_data), extra)
        eng.oblige('post-size', z3.BoolVal(bd._size == len(exp_data) and len(bd._data) <= mx), extra)
        same_keys = sorted(bd._counter) == sorted(exp_cnt)
        eng.oblige('post-counter-keys', z3.BoolVal(same_keys), extra)
        if same_keys:
            eng.oblige('post-counter-values', z3.And(*[zb(lift(bd._counter[k]) == lift(exp_cnt[k])) for k in exp_cnt])
                       if exp_cnt else z3.BoolVal(True), extra)
        eng.oblige('callbacks-exactly-dropped', z3.BoolVal(sorted(calls) == sorted(exp_calls)), extra)
        bd._delete_cb = None      # silence the real destructor of this throw-away object

    def hist(eng):
        calls = []
        bd = BoundedDict(mx, mn, delete_cb=calls.append)
        model = {}
        dropped = []
        for i in range(task['K']):
            op = eng.choose('op%d' % i, ['set', 'get', 'del'])
            key = eng.choose('key%d' % i, pool[:3])
            try:
                if op == 'set':
                    bd[key] = i
                    model[key] = i
                elif op == 'get':
                    bd[key]
                else:
                    del bd[key]
                    model.pop(key, None)
            except KeyError:
                pass
            for k in list(model):
                if k not in bd._data:
                    del model[k]
            # reachable states satisfy the invariant assumed by the inductive step
            eng.oblige('invariant-reachable', z3.BoolVal(sorted(bd._data) == sorted(bd._counter) and
                                                         bd._size == len(bd._data) and len(bd._data) < mx
                                                         and all(c >= 1 for c in bd._counter.values())))
            eng.oblige('values', z3.BoolVal(all(bd._data[k] == model[k] for k in model) and sorted(model) == sorted(bd._data)))
        bd._delete_cb = None

    body = step if task['kind'] == 'step' else hist
    recs = eng.explore(body)
    common.absorb_engine(res, eng, recs, task['id'])
    for v in res['violations']:
        v['task_desc'] = {k: task[k] for k in ('kind', 'mx', 'mn', 'K') if k in task}
        v['pool'] = pool
    res['nontrivial'] = nt[0]
    res['samples'] = ["%s: %d paths, %d obligations" % (task['id'], eng.stats['paths'], eng.stats['obligations'])]
    return res


def replay(w):
    """Concrete re-run: reach the pre-state through the public API (insert the keys, then look them up
    count-1 times), apply the operation, compare with a plain-Python model."""
    from miasm.core.utils import BoundedDict
    t = w['task_desc']
    if t['kind'] != 'step':
        return None, "history task: see log"
    inp = w['inputs']
    pool = w['pool']
    mx, mn = t['mx'], t['mn']
    held = [k for i, k in enumerate(pool) if inp.get('held', 0) >> i & 1]
    op = ['set', 'get', 'del', 'contains', 'destroy'][inp.get('op', 0)]
    key = pool[inp.get('key', 0)]
    calls = []
    bd = BoundedDict(mx, mn, delete_cb=calls.append)
    cnt = {}
    for k in held:
        bd[k] = "v_" + k
        cnt[k] = 1
    for k in held:
        want = min(inp.get('cnt_%s' % k, 1), 50)
        while cnt[k] < want:
            bd[k]
            cnt[k] += 1
    if sorted(bd.keys()) != sorted(held) or calls:
        return None, "pre-state %r not reachable through the API with max=%d" % (held, mx)
    before = dict(bd.data)
    exc = None
    try:
        if op == 'set':
            bd[key] = "new"
        elif op == 'get':
            bd[key]
        elif op == 'del':
            del bd[key]
        elif op == 'contains':
            key in bd
        else:
            bd.__del__()
    except KeyError:
        exc = 'KeyError'
    except Exception as e:
        bd._delete_cb = None
        return True, "%s(%r) on %r raised %r" % (op, key, held, e)
    after = dict(bd.data)
    probs = []
    dropped = [k for k in before if k not in after]
    if op == 'destroy':
        dropped = list(before)
    if sorted(calls) != sorted(dropped):
        probs.append("callback invoked for %r but dropped keys are %r" % (sorted(calls), sorted(dropped)))
    if op == 'set' and key not in before and len(before) + 1 >= mx:
        kept = [k for k in before if k in after]
        ev = [k for k in before if k not in after]
        if any(cnt[k] < cnt[e] for k in kept for e in ev):
            probs.append("eviction kept %r (uses %r) and dropped %r (uses %r)" % (kept, [cnt[k] for k in kept], ev, [cnt[e] for e in ev]))
    elif op in ('set', 'get', 'contains') and dropped and op != 'destroy':
        probs.append("keys %r disappeared on %s(%r)" % (dropped, op, key))
    if op == 'del' and key not in before and exc != 'KeyError':
        probs.append("del of a missing key did not raise KeyError")
    # second step: counters must have been maintained (observable at the next eviction)
    internal = "counter %r size %r" % (dict(bd._counter), bd._size)
    if sorted(bd._counter) != sorted(after) or bd._size != len(after):
        probs.append("internal bookkeeping out of sync: " + internal)
    if op == 'set' and key in before and bd._counter.get(key) != cnt[key] + 1:
        probs.append("use count of %r after update is %r, expected %d" % (key, bd._counter.get(key), cnt[key] + 1))
    bd._delete_cb = None
    if probs:
        return True, "BoundedDict(%d, %r) holding %r (uses %r): %s(%r) -> %s" % (mx, mn, held, cnt, op, key, "; ".join(probs))
    return False, "%s(%r) on %r behaves as the model" % (op, key, held)


if __name__ == '__main__':
    from vf.props import c29
    common.main(c29)
