"""C02 -- simplification terminates and reaches a stable fixed point.

Same templates and paths as C01.  After r = S(e) (symbolic constants), all caches are cleared and S(r)
is run on the same path; z3 decides `pc => S(r) is structurally r` (shape identical, constants equal)
for all constant values.  Termination: more than 3000 rule applications on one path is a failure.
"""
import random

from vf import common, adapt, simpharness

PROP = 'C02'
LEVEL = 'other'
MODE = 'fixpoint'
NONREPRO = 'inconclusive'

META = dict(
    functions=["miasm.expression.simplifications.ExpressionSimplifier (visit, expr_simp_inner, apply_simp)",
               "every pass of simplifications_common.py (46 simp_* functions)",
               "simplifications_explicit.simp_flags / simp_ext", "expression.ExprVisitorCanonize / canonize",
               "expression_helper.merge_sliceto_slice", "core.modint", "Expr constructors"],
    stubs=adapt.STUBS,
    bounds=dict(
        quick=dict(S1_widths=[8], S1_simplifiers=simpharness.SIMPLIFIERS, S2_base_width=8, S2_fraction="1/12 (seed-chosen) of depth-2, all depth-1",
                   query_timeout_s=10, max_paths_per_template=1500, budget_s_per_template=60),
        thorough=dict(S1_widths=[4, 8, 16, 32], S1_simplifiers=simpharness.SIMPLIFIERS, S2_base_width=8, S2_fraction="all",
                      query_timeout_s=30, max_paths_per_template=4000, budget_s_per_template=300)),
    outside=["expression widths other than those generated from the base widths listed (1, n/2, n, 2n, 4n)",
             "trees deeper than 2 (generic) / than the rule-directed shapes", "floating point and other operators "
             "without fixed meaning are uninterpreted functions (same symbol on both sides)",
             "set-iteration order may differ from production (value-independent constant hash): affects shape, not meaning",
             "PASS_COND / PASS_HEAVY rule lists (not enabled in any shipped simplifier instance)"],
    assumptions=["valuations where a divisor of / % udiv umod sdiv smod in the ORIGINAL expression is zero are excluded",
                 "memory: one little-endian byte space, a pointer of width p wraps at 2^p",
                 "FLAG_SIGN_ADD(a,b) means msb(a+b) (no explicit formula shipped; analogue of FLAG_SIGN_SUB)"],
    rule="template = expression shape with symbolic constants; S1 rule-directed (one per documented rewrite pattern "
         "and its near misses), S2 all typed trees of depth<=2; non-trivial = path that reached the equivalence obligation",
    explanation="Bounded symbolic verification of idempotence: the real simplifier is run twice on the same symbolic "
                "path; the solver proves the second result structurally equal to the first for every constant value. "
                "Because constant hashes are value-independent in the harness, set-iteration order can differ from "
                "production: a symbolic counterexample that does not reproduce concretely is reported INCONCLUSIVE.",
)


def tasks(tier, seed):
    b = META['bounds'][tier]
    ts = []
    S1 = simpharness.s1()
    for n in b['S1_widths']:
        for idx, (name, _) in enumerate(S1):
            for simp in b['S1_simplifiers']:
                if simp == 'expr_simp_high_to_explicit' and not (name.startswith('hl/') or name.startswith('cc/')
                                                                 or name.startswith('ext/') or name.startswith('flag/')):
                    continue
                ts.append(dict(set='S1', idx=idx, name=name, n=n, simp=simp,
                               id='S1:%s:n%d:%s' % (name, n, simp), cost=n))
    n2 = b['S2_base_width']
    specs = simpharness.s2(n2)
    from vf import templates
    rnd = random.Random(seed)
    idxs = list(range(len(specs)))
    if tier == 'quick':
        d1_start = len(specs) - sum(1 for s in specs if all(x[0] == 'l' for x in s[1:] if isinstance(x, tuple)))
        keep = set(rnd.sample(idxs, len(idxs) // 12))
        idxs = [i for i in idxs if i in keep or i >= d1_start]
    for i in idxs:
        name = templates.spec_str(specs[i])
        simp = 'expr_simp' if (i % 3) else 'expr_simp_explicit'
        ts.append(dict(set='S2', idx=i, name=name, n=n2, simp=simp, id='S2:%d:%s:%s' % (i, name, simp), cost=1))
    for t in ts:
        t['timeout_s'] = b['query_timeout_s']
        t['max_paths'] = b['max_paths_per_template']
        t['budget_s'] = b['budget_s_per_template']
    return ts


def twins(tier):
    S1 = simpharness.s1()
    idx = [i for i, (n, _) in enumerate(S1) if n == 'cst/+/a_c_c'][0]
    return [dict(set='S1', idx=idx, name='cst/+/a_c_c', n=8, simp='expr_simp', id='twin:always-differs',
                 bug='fix_always_differs', timeout_s=10)]


def run_task(task):
    return simpharness.run_task(task, MODE, PROP, META)


def replay(w):
    return simpharness.replay(w, MODE)


if __name__ == '__main__':
    from vf.props import c02
    common.main(c02)
