"""C38 -- data-flow analyses match their path-based definitions.

Small IR graphs are generated nondeterministically: the control-flow shape is fixed per task (every successor
assignment of 3 blocks in which all blocks are reachable from the first; a fixed sample of 4-block shapes), the
statements of each block are chosen by solver variables among definitions / uses / parallel swaps of three variables,
and the real ReachingDefinitions, DiGraphDefUse, DiGraphLiveness and DiGraphLivenessIRA run on the resulting IRCFG.  The
oracle works on the point graph ((block, index) program points) and decides "some path from the definition to the
point without redefinition" / "some path from the point that reads before writing" by search -- it does not share
code with miasm (reads and writes come from the generator's own statement table).

Variables are hashed by the implementation: the solver's share is driving the exhaustive enumeration (labelled so).
"""
import itertools

from vf import common

PROP = 'C38'
LEVEL = 'other'
CALL_LIMIT_S = 5

# statement table: list of (destination, variables read)
STMTS = [
    [('x', [])],                      # x = 1
    [('y', ['x'])],                   # y = x
    [('x', ['x', 'y'])],              # x = x + y
    [('x', ['y']), ('y', ['x'])],     # parallel swap
    [('c', ['y'])],                   # c = y   (c is the branch condition)
    [('z', [])],                      # unrelated
    [('y', ['x', 'M'])],              # y = @32[x]     (M stands for the memory cell @32[x]; x is read as a pointer)
    [('M', ['x', 'y'])],              # @32[x] = y
]
SUCC3 = [(), (0,), (1,), (2,), (0, 1), (0, 2), (1, 2)]
SUCC4 = [(), (0,), (1,), (2,), (3,), (0, 1), (0, 2), (0, 3), (1, 2), (1, 3), (2, 3)]

META = dict(
    functions=["miasm.analysis.data_flow.ReachingDefinitions.compute / process_block / process_assignblock",
               "DiGraphDefUse._compute_def_use_block", "IRBlockLivenessInfos", "DiGraphLiveness.compute_liveness / "
               "back_propagate_compute / back_propagate_to_parent", "DiGraphLivenessIRA.init_var_info",
               "DiGraphLivenessSSA.__init__ / back_propagate_to_parent (on the SSA form produced by the real SSADiGraph)",
               "miasm.analysis.ssa.get_phi_sources_parent_block / irblock_has_phi"],
    stubs=["lifter.get_out_regs -> {x} (the variable observed at the exits, for DiGraphLivenessIRA)"],
    bounds=dict(quick=dict(blocks=3, shapes="every successor assignment (leaf / one / two successors per block) with all blocks "
                                            "reachable from the first", statements_per_block=1, statement_table=len(STMTS)),
                thorough=dict(blocks="3 and 4", shapes="3 blocks: as quick with 2 statements in the first block; 4 blocks: 300 shapes "
                                                       "from a fixed stream", statements_per_block="1 (2 in the first block of "
                                                       "3-block graphs)", statement_table=len(STMTS))),
    outside=["memory cells other than the one syntactic cell @32[x] (treated as the pseudo-variable M, as the analyses do)", "graphs with an edge to a location that has no IR block", "graphs with more than 4 blocks",
             "blocks unreachable from the first block"],
    assumptions=["an assignment block reads all its sources before it writes (parallel assignment)",
                 "the branch condition is read by the block's last assignment (IRDst = c ? L1 : L2); a leaf ends with IRDst = r",
                 "at a leaf the out registers of DiGraphLivenessIRA are read",
                 "SSA liveness: a phi operand is read on the edge from the predecessor whose dominator chain meets its definition "
                 "first; the live-in set of the phi assignment itself is not compared (convention); no out registers"],
    rule="program = shape x statement choices; each (program, analysis) is one obligation over every program point; non-trivial = "
         "program whose graph has a cycle",
    explanation="Bounded exhaustive exploration: the solver enumerates statement choices for each fixed shape; the real analyses "
                "are compared with path-search oracles on the point graph.",
)


def reachable_all(succs):
    seen = {0}
    todo = [0]
    while todo:
        b = todo.pop()
        for s in succs[b]:
            if s not in seen:
                seen.add(s)
                todo.append(s)
    return len(seen) == len(succs)


def shapes3():
    return [s for s in itertools.product(SUCC3, repeat=3) if reachable_all(s)]


def shapes4(count):
    import random
    rnd = random.Random(38004)
    out = []
    while len(out) < count:
        s = tuple(rnd.choice(SUCC4) for _ in range(4))
        if reachable_all(s) and s not in out:
            out.append(s)
    return out


def tasks(tier, seed):
    ts = []
    for i, s in enumerate(shapes3()):
        slots = [1, 1, 1] if tier == 'quick' else [2, 1, 1]
        ts.append(dict(id='s3:%03d' % i, succs=[list(x) for x in s], slots=slots, tier=tier, cost=2 if tier != 'quick' else 1))
    if tier != 'quick':
        for i, s in enumerate(shapes4(300)):
            ts.append(dict(id='s4:%03d' % i, succs=[list(x) for x in s], slots=[1, 1, 1, 1], tier=tier, cost=3))
    return ts


def twins(tier):
    return [dict(id='twin:oracle-forgets-kill', succs=[[1], [1, 2], []], slots=[1, 1, 1], tier=tier, bug='no_kill'),
            dict(id='twin:phi-operands-read-on-every-edge', succs=[[1, 2], [2], []], slots=[1, 1, 1], tier=tier, bug='phi_all_preds')]


# ------------------------------------------------------------------------------------------------ program construction

def program(succs, choice):
    """choice[b] = list of statement indexes.  -> list of blocks; block = list of assignblks; assignblk = list of (dst, reads)"""
    prog = []
    for b, ss in enumerate(succs):
        blk = [list(STMTS[k]) for k in choice[b]]
        blk.append([('IRDst', ['c'] if len(ss) == 2 else ([] if ss else ['r']))])
        prog.append(blk)
    return prog


def build_ircfg(succs, prog):
    from miasm.core.locationdb import LocationDB
    from miasm.expression.expression import ExprId, ExprInt, ExprLoc, ExprCond, ExprOp
    from miasm.ir.ir import IRCFG, IRBlock, AssignBlock
    loc_db = LocationDB()
    L = [loc_db.add_location(name='B%d' % i) for i in range(len(succs))]
    from miasm.expression.expression import ExprMem
    V = {n: ExprId(n, 32) for n in 'xyzcr'}
    V['M'] = ExprMem(V['x'], 32)
    IRDst = ExprId('IRDst', 32)
    V['IRDst'] = IRDst
    ircfg = IRCFG(IRDst, loc_db)
    for b, blk in enumerate(prog):
        abs_ = []
        for ab in blk:
            d = {}
            for dst, reads in ab:
                if dst == 'IRDst':
                    ss = succs[b]
                    if len(ss) == 0:
                        src = V['r']                  # return to an address held in r: the block is a leaf of the graph
                    elif len(ss) == 1:
                        src = ExprLoc(L[ss[0]], 32)
                    else:
                        src = ExprCond(V['c'], ExprLoc(L[ss[0]], 32), ExprLoc(L[ss[1]], 32))
                elif not reads:
                    src = ExprInt(1, 32)
                elif 'M' in reads:
                    src = V['M']                      # load: reads the pointer x and the cell
                elif dst == 'M':
                    src = V['y']                      # store: reads the pointer x (through the destination) and y
                elif len(reads) == 1:
                    src = V[reads[0]]
                else:
                    src = ExprOp('+', *[V[r] for r in reads])
                d[V[dst]] = src
            abs_.append(AssignBlock(d))
        ircfg.add_irblock(IRBlock(loc_db, L[b], abs_))
    return loc_db, L, V, ircfg


# ------------------------------------------------------------------------------------------------ oracles on the point graph

def writes(ab):
    return set(d for d, _ in ab)


def reads(ab):
    return set(r for _, rs in ab for r in rs)


def o_reaching(succs, prog, bug=None):
    """{(b, i): {var: set((b', i'))}} for i in 0..len(block)"""
    out = {(b, i): {} for b, blk in enumerate(prog) for i in range(len(blk) + 1)}
    for b0, blk0 in enumerate(prog):
        for i0, ab0 in enumerate(blk0):
            for v in writes(ab0):
                seen = set()
                todo = [(b0, i0 + 1)]
                while todo:
                    p = todo.pop()
                    if p in seen:
                        continue
                    seen.add(p)
                    b, i = p
                    if i < len(prog[b]):
                        if v not in writes(prog[b][i]) or bug == 'no_kill':
                            todo.append((b, i + 1))
                    else:
                        for s in succs[b]:
                            todo.append((s, 0))
                for p in seen:
                    out[p].setdefault(v, set()).add((b0, i0))
    return out


def o_defuse(succs, prog, reach):
    nodes = set()
    edges = set()
    for b, blk in enumerate(prog):
        for i, ab in enumerate(blk):
            for dst, rs in ab:
                nodes.add((b, i, dst))
                for r in rs:
                    for (b0, i0) in reach[(b, i)].get(r, ()):
                        edges.add(((b0, i0, r), (b, i, dst)))
                        nodes.add((b0, i0, r))
    return nodes, edges


def o_liveness(succs, prog, out_regs):
    """live[(b, i)] = variables live at the point before assignblk i (i = len: end of block)"""
    preds = {b: [p for p in range(len(succs)) if b in succs[p]] for b in range(len(succs))}
    live = {(b, i): set() for b, blk in enumerate(prog) for i in range(len(blk) + 1)}

    def back(v, start):
        todo = [start]
        while todo:
            p = todo.pop()
            if v in live[p]:
                continue
            live[p].add(v)
            b, i = p
            if i > 0:
                if v not in writes(prog[b][i - 1]):
                    todo.append((b, i - 1))
            else:
                for q in preds[b]:
                    todo.append((q, len(prog[q])))
    for b, blk in enumerate(prog):
        for i, ab in enumerate(blk):
            for v in reads(ab):
                back(v, (b, i))
        if not succs[b]:
            for v in out_regs:
                back(v, (b, len(blk)))
    return live


# ------------------------------------------------------------------------------------------------ comparison

class FakeLifter(object):
    def __init__(self, regs):
        self.regs = regs

    def get_out_regs(self, block):
        return set(self.regs)


def compare(succs, prog, bug=None):
    from vf.simpharness import time_limit
    from miasm.analysis.data_flow import ReachingDefinitions, DiGraphDefUse, DiGraphLiveness, DiGraphLivenessIRA
    loc_db, L, V, ircfg = build_ircfg(succs, prog)
    name = {v: k for k, v in V.items()}
    bidx = {lk: i for i, lk in enumerate(L)}
    bad = {}

    def guarded(algo, f):
        try:
            with time_limit(CALL_LIMIT_S):
                f()
        except Exception as ex:
            bad.setdefault(algo, "raised %s: %s" % (type(ex).__name__, ex))

    want_rd = o_reaching(succs, prog, bug)
    holder = {}

    def rd_():
        rd = ReachingDefinitions(ircfg)
        holder['rd'] = rd
        for (b, i), w in sorted(want_rd.items()):
            got = {name[k]: set((bidx[x], j) for x, j in v) for k, v in rd.get_definitions(L[b], i).items() if v}
            if got != w:
                bad.setdefault('reaching-definitions', "at (B%d, %d): implementation %s, paths give %s" % (
                    b, i, sorted((k, sorted(v)) for k, v in got.items()), sorted((k, sorted(v)) for k, v in w.items())))
                return
    if bug == 'phi_all_preds':
        guarded('liveness-ssa', lambda: ssa_liveness(succs, prog, bad, bug))
        return bad
    guarded('reaching-definitions', rd_)
    if bug:
        return bad

    def du_():
        rd = holder.get('rd') or ReachingDefinitions(ircfg)
        du = DiGraphDefUse(rd, deref_mem=True)
        wn, we = o_defuse(succs, prog, want_rd)
        conv = lambda n_: (bidx[n_.label], n_.index, name[n_.var])
        gn = set(conv(n_) for n_ in du.nodes())
        ge = [(conv(a), conv(b)) for a, b in du.edges()]
        if len(ge) != len(set(ge)):
            bad.setdefault('def-use', "an edge is listed twice: %s" % sorted(ge))
        elif set(ge) != we:
            bad.setdefault('def-use', "def-use edges: only in implementation %s, only by paths %s" % (
                sorted(set(ge) - we), sorted(we - set(ge))))
        elif gn != wn:
            bad.setdefault('def-use', "def-use nodes: implementation %s, expected %s" % (sorted(gn), sorted(wn)))
    guarded('def-use', du_)

    def live_(cls, out_regs, algo):
        def f():
            lv = cls(ircfg)
            if out_regs is not None:
                lv.init_var_info(FakeLifter([V[r] for r in out_regs]))
            lv.compute_liveness()
            want = o_liveness(succs, prog, out_regs or [])
            for b, blk in enumerate(prog):
                infos = lv.blocks[L[b]].infos
                for i in range(len(blk)):
                    gi = set(name[v] for v in infos[i].var_in)
                    go = set(name[v] for v in infos[i].var_out)
                    if gi != want[(b, i)]:
                        bad.setdefault(algo, "live before B%d[%d]: implementation %s, paths give %s" % (
                            b, i, sorted(gi), sorted(want[(b, i)])))
                        return
                    if go != want[(b, i + 1)]:
                        bad.setdefault(algo, "live after B%d[%d]: implementation %s, paths give %s" % (
                            b, i, sorted(go), sorted(want[(b, i + 1)])))
                        return
        return f
    guarded('liveness', live_(DiGraphLiveness, None, 'liveness'))
    guarded('liveness-ira', live_(DiGraphLivenessIRA, ['x'], 'liveness-ira'))
    guarded('liveness-ssa', lambda: ssa_liveness(succs, prog, bad))
    return bad


def ssa_liveness(succs, prog, bad, bug=None):
    """DiGraphLivenessSSA on the SSA form of the program (built by the real SSADiGraph, which is only the program
    generator here) against a path oracle in which a phi operand is read on the edge from the predecessor it comes from
    (the predecessor whose dominator chain meets the operand's definition first)."""
    from miasm.analysis.ssa import SSADiGraph
    from miasm.analysis.data_flow import DiGraphLivenessSSA
    from miasm.expression.expression import get_expr_ids
    loc_db, L, V, ircfg = build_ircfg(succs, prog)
    ssa = SSADiGraph(ircfg)
    ssa.transform(L[0])
    g = ssa.graph
    locs = sorted(g.blocks, key=lambda lk: lk.key)
    idx = {lk: i for i, lk in enumerate(locs)}
    n = len(locs)
    adj = set((idx[a], idx[b]) for a, b in g.edges() if a in idx and b in idx)
    preds = {b: sorted(a for a, b2 in adj if b2 == b) for b in range(n)}
    # statements: per block list of (writes, reads, phi: {var: [sources]})
    blocks = []
    defblock = {}
    for lk in locs:
        stm = []
        for ai, ab in enumerate(g.blocks[lk]):
            ws, rs, phis = set(), set(), {}
            for dst, src in ab.items():
                if dst.is_mem():
                    # store: memory is not an SSA variable; the pointer and the source are read
                    rs |= set(x.name for x in get_expr_ids(dst.ptr)) | set(x.name for x in get_expr_ids(src))
                    continue
                ws.add(dst.name)
                defblock[dst.name] = (idx[lk], ai)
                if src.is_op('Phi'):
                    phis[dst.name] = [a.name for a in src.args]
                else:
                    rs |= set(x.name for x in get_expr_ids(src))
            stm.append((ws, rs, phis))
        blocks.append(stm)
    head = idx[L[0]] if L[0] in idx else 0
    heads = [b for b in range(n) if not preds[b]] or [head]
    root = heads[0]
    dom = o_dominators_simple(n, adj, root)

    def source_for(pred, sources):
        # nearest definition on the dominator chain of pred (pred itself first)
        chain = sorted(dom.get(pred, {pred}), key=lambda d: -len(dom.get(d, ())))
        for d in chain:
            for sname in sources:
                if sname in defblock and defblock[sname][0] == d:
                    return sname
        return None
    live = {(b, i): set() for b in range(n) for i in range(len(blocks[b]) + 1)}

    def back(v, start):
        todo = [start]
        while todo:
            p_ = todo.pop()
            if v in live[p_]:
                continue
            live[p_].add(v)
            b, i = p_
            if i > 0:
                if v not in blocks[b][i - 1][0]:
                    todo.append((b, i - 1))
            else:
                for q in preds[b]:
                    todo.append((q, len(blocks[q])))
    for b in range(n):
        for i, (ws, rs, phis) in enumerate(blocks[b]):
            for v in rs:
                back(v, (b, i))
            for dst, sources in phis.items():
                for q in preds[b]:
                    sname = source_for(q, sources)
                    if sname is None:
                        raise RuntimeError("no phi operand of %s comes from predecessor %d" % (dst, q))
                    back(sname, (q, len(blocks[q])))
                    if bug == 'phi_all_preds':
                        for other in sources:            # deliberately wrong: every operand is read on every edge
                            back(other, (q, len(blocks[q])))
    lv = DiGraphLivenessSSA(g)
    lv.init_var_info(FakeLifter([]))
    lv.compute_liveness()
    for b in range(n):
        infos = lv.blocks[locs[b]].infos
        for i in range(len(blocks[b])):
            is_phi = bool(blocks[b][i][2])
            gi = set(v.name for v in infos[i].var_in if v.is_id())
            go = set(v.name for v in infos[i].var_out if v.is_id())
            if not is_phi and gi != live[(b, i)]:
                bad.setdefault('liveness-ssa', "SSA form: live before %s[%d]: implementation %s, paths give %s" % (
                    loc_db.pretty_str(locs[b]), i, sorted(gi), sorted(live[(b, i)])))
                return
            if go != live[(b, i + 1)]:
                bad.setdefault('liveness-ssa', "SSA form: live after %s[%d]: implementation %s, paths give %s" % (
                    loc_db.pretty_str(locs[b]), i, sorted(go), sorted(live[(b, i + 1)])))
                return


def o_dominators_simple(n, adj, head):
    def reach(avoid):
        if head == avoid:
            return set()
        seen = {head}
        todo = [head]
        while todo:
            x = todo.pop()
            for (a, b) in adj:
                if a == x and b != avoid and b not in seen:
                    seen.add(b)
                    todo.append(b)
        return seen
    R = reach(None)
    return {x: set(d for d in R if d == x or x not in reach(d)) for x in R}


ALGOS = ['reaching-definitions', 'def-use', 'liveness', 'liveness-ira', 'liveness-ssa']


def has_cycle(succs):
    n = len(succs)
    for s in range(n):
        seen = set()
        todo = list(succs[s])
        while todo:
            b = todo.pop()
            if b == s:
                return True
            if b not in seen:
                seen.add(b)
                todo += list(succs[b])
    return False


def show(succs, prog):
    out = []
    for b, blk in enumerate(prog):
        out.append("B%d{%s}->%s" % (b, " ; ".join(", ".join("%s=f(%s)" % (d, ",".join(rs)) for d, rs in ab) for ab in blk),
                                    ["B%d" % s for s in succs[b]]))
    return "  ".join(out)


def run_task(task):
    import builtins
    import time
    import z3
    from vf.symx import Engine
    res = common.new_result(task)
    eng = Engine(timeout_ms=10000, max_paths=2000000)
    eng.deadline = time.time() + (200 if task['tier'] == 'quick' else 5000)
    eng.on_path_end = common.make_known_attributor(common.load_known(PROP), task['id'])
    succs = [tuple(s) for s in task['succs']]
    slots = task['slots']
    bug = task.get('bug')
    cyc = has_cycle(succs)
    nontriv = [0]

    def fn(eng):
        choice = [[builtins.int(eng.fresh_int('s%d_%d' % (b, k), 0, len(STMTS) - 1)) for k in range(slots[b])]
                  for b in range(len(succs))]
        prog = program(succs, choice)
        if cyc:
            nontriv[0] += 1
        bad = compare(succs, prog, bug)
        for a in (ALGOS if not bug else (ALGOS[:1] if bug == 'no_kill' else ['liveness-ssa'])):
            eng.oblige(a, z3.BoolVal(a not in bad), dict(choice=choice, program=show(succs, prog), mismatch=bad.get(a)))
    recs = eng.explore(fn)
    common.absorb_engine(res, eng, recs, task['id'])
    for v in res['violations']:
        v['task_desc'] = dict(succs=[list(s) for s in succs])
    res['nontrivial'] = nontriv[0]
    res['samples'] = ["shape %s, %s statement slots: %d programs" % (task['succs'], slots, eng.stats['paths'])]
    return res


def replay(w):
    succs = [tuple(s) for s in w['task_desc']['succs']]
    prog = program(succs, w['choice'])
    bad = compare(succs, prog)
    if w['ob'] in bad:
        return True, "program %s: %s: %s" % (show(succs, prog), w['ob'], bad[w['ob']])
    return False, "program %s: %s agrees with path enumeration" % (show(succs, prog), w['ob'])


if __name__ == '__main__':
    from vf.props import c38
    common.main(c38)
