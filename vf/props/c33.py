"""C33 -- the patchable byte buffer behaves like a zero-padded growable string.

Bounded histories of StrPatchwork operations are explored with the symx engine: the operation codes, indices,
slice bounds and payload choices of each step are solver variables that the engine concretises EXHAUSTIVELY
(array('B') / struct are C: every index concretises), and after every history a full observation (every index,
every slice, searches) is compared with a bytearray-with-padding model.  There is no arithmetic for the solver to
prune: this is bounded exhaustive exploration driven by the solver, and is labelled so.
"""
import builtins

from vf import common

PROP = 'C33'
LEVEL = 'other'

META = dict(
    functions=["miasm.loader.strpatchwork.StrPatchwork.__init__ / __getitem__ / __setitem__ / __iadd__ / __len__ / __bytes__ / "
               "__contains__ / find / rfind"],
    stubs=[],
    bounds=dict(quick=dict(initial_contents=["", "ab"], operations_per_history=2, index_margin=2, payloads=["X", "XY", ""],
                           padding_bytes=["\\x00", "P"]),
                thorough=dict(initial_contents=["", "a", "abc"], operations_per_history=3, index_margin=3,
                              payloads=["X", "XY", ""], padding_bytes=["\\x00", "P"])),
    outside=["negative indices and slice steps", "slice writes whose payload length differs from the slice length (array "
             "semantics: insertion/deletion)", "longer histories / buffers"],
    assumptions=["reading index i >= len returns the padding byte; reading a slice ending past the end pads up to its stop; "
                 "writing past the end pads the gap"],
    rule="history = initial content x K operations (write index / write slice / append / search); after it every index, slice "
         "and search is observed; non-trivial = history whose operations changed the buffer",
    explanation="Bounded exhaustive exploration (solver-driven enumeration of operation codes and indices; no symbolic "
                "arithmetic survives the C array boundary) of the real StrPatchwork against a bytearray-with-padding model.",
)


def tasks(tier, seed):
    b = META['bounds'][tier]
    ts = []
    for init in b['initial_contents']:
        for pad in (b"\x00", b"P"):
            ts.append(dict(init=init, pad=pad.decode('latin1'), K=b['operations_per_history'], margin=b['index_margin'],
                           tier=tier, id="hist:%r:%r" % (init, pad)))
    return ts


def twins(tier):
    return [dict(init="ab", pad="\x00", K=1, margin=1, tier=tier, id='twin:no-padding-model', bug='no_padding')]


class Model(object):
    def __init__(self, content, pad, bug=None):
        self.b = bytearray(content)
        self.pad = pad
        self.bug = bug

    def read_idx(self, i):
        return bytes(self.b[i:i + 1]) if i < len(self.b) else self.pad

    def read_slice(self, a, b):
        x = bytes(self.b)
        if b > len(x) and self.bug != 'no_padding':
            x = x + self.pad * (b - len(x))
        return x[a:b]

    def write(self, a, val):
        end = a + len(val)
        if len(self.b) < end:
            self.b += self.pad * (end - len(self.b))
        self.b[a:end] = val

    def append(self, val):
        self.b += val


def observe(sp, m, margin):
    """list of (what, got, want) mismatches"""
    bad = []
    n = len(m.b)
    if len(sp) != n:
        bad.append(("len", len(sp), n))
    if bytes(sp) != bytes(m.b):
        bad.append(("bytes", bytes(sp), bytes(m.b)))
    for i in range(0, n + margin + 1):
        try:
            g = sp[i]
        except Exception as ex:
            g = "%s: %s" % (type(ex).__name__, ex)
        if g != m.read_idx(i):
            bad.append(("sp[%d]" % i, g, m.read_idx(i)))
    for a in range(0, n + margin + 1):
        for b_ in range(a, n + margin + 1):
            try:
                g = sp[a:b_]
            except Exception as ex:
                g = "%s: %s" % (type(ex).__name__, ex)
            if g != m.read_slice(a, b_):
                bad.append(("sp[%d:%d]" % (a, b_), g, m.read_slice(a, b_)))
    cur = bytes(m.b)
    for pat in (b"a", b"X", b"Z", b"ab", b"bX", b"XY", b"P"):
        for f in ('find', 'rfind'):
            g = getattr(sp, f)(pat)
            w = getattr(cur, f)(pat)
            if g != w:
                bad.append(("%s(%r)" % (f, pat), g, w))
        if (pat in sp) != (pat in cur):
            bad.append(("%r in sp" % pat, pat in sp, pat in cur))
    return bad


OPS = ['write_idx', 'write_slice', 'append', 'find', 'read_past']
PAYLOADS = [b"X", b"XY", b""]
APPENDS = [b"Z", b"ab", b""]


def apply_op(sp, m, op, a, pay):
    if op == 'write_idx':
        sp[a] = pay
        m.write(a, pay)
        return "sp[%d] = %r" % (a, pay)
    if op == 'write_slice':
        sp[a:a + len(pay)] = pay
        m.write(a, pay)
        return "sp[%d:%d] = %r" % (a, a + len(pay), pay)
    if op == 'append':
        sp += pay
        m.append(pay)
        return "sp += %r" % (pay,)
    if op == 'find':
        sp.find(b"a")           # fills the search cache
        return "sp.find(b'a')"
    if op == 'read_past':
        sp[a:a + 2]             # reading past the end must not grow the buffer
        return "sp[%d:%d]" % (a, a + 2)
    raise ValueError(op)


def run_task(task):
    import z3
    import time
    from vf.symx import Engine
    from miasm.loader.strpatchwork import StrPatchwork
    res = common.new_result(task)
    eng = Engine(timeout_ms=10000, max_paths=200000)
    eng.deadline = time.time() + (120 if task['tier'] == 'quick' else 1500)
    eng.on_path_end = common.make_known_attributor(common.load_known(PROP), task['id'])
    init = task['init'].encode('latin1')
    pad = task['pad'].encode('latin1')
    K, margin = task['K'], task['margin']
    changed = [0]

    def fn(eng):
        sp = StrPatchwork(init, pad)
        m = Model(init, pad, task.get('bug'))
        log = []
        for k in range(K):
            op = eng.choose('op%d' % k, OPS)
            a = 0
            pay = b""
            if op in ('write_idx', 'write_slice', 'read_past'):
                a = builtins.int(eng.fresh_int('a%d' % k, 0, len(m.b) + margin))
            if op in ('write_idx', 'write_slice'):
                pay = eng.choose('pay%d' % k, PAYLOADS)
            if op == 'append':
                pay = eng.choose('pay%d' % k, APPENDS)
            try:
                log.append(apply_op(sp, m, op, a, pay))
            except Exception as ex:
                eng.fail('no-exception', dict(exc="%s: %s" % (type(ex).__name__, ex), log=log + ["%s a=%d pay=%r" % (op, a, pay)]))
                return
        if bytes(m.b) != init:
            changed[0] += 1
        bad = observe(sp, m, margin)
        eng.oblige('observation-equals-model', z3.BoolVal(not bad), dict(log=log, mismatch=[str(x) for x in bad[:3]]))
    recs = eng.explore(fn)
    common.absorb_engine(res, eng, recs, task['id'])
    for v in res['violations']:
        v['task_desc'] = dict(init=task['init'], pad=task['pad'], K=K, margin=margin)
    res['nontrivial'] = changed[0]
    res['samples'] = ["initial %r padding %r: %d histories of %d operations" % (init, pad, eng.stats['paths'], K)]
    return res


def replay(w):
    from miasm.loader.strpatchwork import StrPatchwork
    t = w['task_desc']
    inp = w['inputs']
    init, pad = t['init'].encode('latin1'), t['pad'].encode('latin1')
    sp = StrPatchwork(init, pad)
    m = Model(init, pad)
    log = []
    for k in range(t['K']):
        op = OPS[inp.get('op%d' % k, 0)]
        a = inp.get('a%d' % k, 0)
        pay = b""
        if op in ('write_idx', 'write_slice'):
            pay = PAYLOADS[inp.get('pay%d' % k, 0)]
        if op == 'append':
            pay = APPENDS[inp.get('pay%d' % k, 0)]
        try:
            log.append(apply_op(sp, m, op, a, pay))
        except Exception as ex:
            return True, "StrPatchwork(%r, %r); %s; then %s(a=%d, %r) raised %s: %s" % (init, pad, "; ".join(log), op, a, pay,
                                                                                   type(ex).__name__, ex)
    bad = observe(sp, m, t['margin'])
    if bad:
        return True, "StrPatchwork(%r, %r); %s  ==> %s gives %r, a padded byte string gives %r" % (
            init, pad, "; ".join(log), bad[0][0], bad[0][1], bad[0][2])
    return False, "history %s agrees with the model" % "; ".join(log)


if __name__ == '__main__':
    from vf.props import c33
    common.main(c33)
