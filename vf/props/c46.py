"""C46 -- the sandboxed file system never escapes its base directory.

String inputs: decided with CrossHair (symbolic execution of the real Python with z3 string theory) on PEP316
contracts in vf/ch/c46_harness.py: for every guest path up to MAXLEN characters over the alphabet {/ \\ . a b},
unix_to_sbpath / windows_to_sbpath / FileSystem.resolve_path (5 symbolic-link layouts, follow / no-follow) return a
path lexically inside the base directory.  One process per condition; counterexamples are replayed concretely.
"""
import os
import re
import subprocess
import sys
import time

from vf import common

PROP = 'C46'
LEVEL = 'other'
HARNESS = os.path.join(common.VERIF, 'vf', 'ch', 'c46_harness.py')

META = dict(
    functions=["miasm.os_dep.common.unix_to_sbpath / windows_to_sbpath / _sb_components", "miasm.os_dep.linux.environment."
               "FileSystem.resolve_path (with symbolic-link handling, follow_link True/False)"],
    stubs=["os.path.normpath -> CPython's pure-Python posixpath fallback (the C accelerator realises symbolic strings)",
           "os.path.islink / os.readlink -> in-memory symbolic-link table (5 layouts: none, absolute target, '..' target, "
           "'../../..' target, two-link chain ending in '/..')"],
    bounds=dict(quick=dict(max_len=4, alphabet="/ \\ . a b", per_condition_timeout_s=45),
                thorough=dict(max_len=6, alphabet="/ \\ . a b", per_condition_timeout_s=600)),
    outside=["paths longer than MAXLEN or with other characters", "passthrough entries (explicitly allowed to leave the "
             "sandbox)", "real symbolic links on disk / races (TOCTOU)", "bytes paths"],
    assumptions=["containment is lexical: after resolving '.' and '..' the result stays under the base directory",
                 "CrossHair verdicts: 'Confirmed over all paths' = holds within the bound; 'Not confirmed' / 'Unable to meet "
                 "precondition' = inconclusive"],
    rule="one CrossHair run per contract (function x symlink layout); non-trivial = contract whose exploration was confirmed "
         "over all paths or refuted",
    explanation="Bounded symbolic verification with CrossHair (z3 string theory): the guest path is a symbolic str constrained "
                "by the precondition; the postcondition is lexical containment in the base directory.",
    trusted_base=["crosshair-tool 0.0.110", "z3", "vf/ch/c46_harness.py (containment oracle, normpath copy, link table)"],
)


def line_of(fn):
    with open(HARNESS) as f:
        for i, l in enumerate(f, 1):
            if l.startswith("def %s(" % fn):
                return i + 1
    raise KeyError(fn)


def tasks(tier, seed):
    sys.path.insert(0, os.path.dirname(HARNESS))
    names = ["check_unix", "check_win", "check_resolve_none", "check_resolve_abs", "check_resolve_up", "check_resolve_upup",
             "check_resolve_chain", "check_resolve_nofollow"]
    return [dict(id="ch:%s" % n, fn=n, tier=tier) for n in names]


def twins(tier):
    return [dict(id="twin:must-fail", fn="twin_must_fail", tier=tier)]


def run_task(task):
    res = common.new_result(task)
    b = META['bounds'][task['tier']]
    env = dict(os.environ, PYTHONPATH="/verif:/repo", VERIF_C46_MAXLEN=str(b['max_len']), PYTHONHASHSEED="0")
    tmo = b['per_condition_timeout_s']
    cmd = [os.path.join(common.VERIF, '.venv', 'bin', 'crosshair'), 'check', '--report_all',
           '--per_condition_timeout', str(tmo), '--per_path_timeout', str(max(5, tmo // 4)),
           "%s:%d" % (HARNESS, line_of(task['fn']))]
    t0 = time.time()
    try:
        out = subprocess.run(cmd, cwd=common.VERIF, env=env, capture_output=True, text=True, timeout=tmo * 3 + 60)
        text = out.stdout + out.stderr
    except subprocess.TimeoutExpired:
        text = "TIMEOUT"
    res['solver_s'] = time.time() - t0
    res['obligations'] = 1
    res['paths'] = 1
    res['queries'] = 1
    m = re.search(r"error: (false|.*?) when calling (\w+)\((.*)\) \(which", text)
    if 'Confirmed over all paths' in text:
        res['discharged'] = 1
        res['nontrivial'] = 1
        res['samples'].append("%s: Confirmed over all paths (len <= %d)" % (task['fn'], b['max_len']))
    elif m:
        arg = m.group(3)
        try:
            path = eval(arg, {})
        except Exception:
            path = None
        res['nontrivial'] = 1
        res['violations'].append(dict(site=task['id'], ob='inside-sandbox', fn=task['fn'], inputs=dict(path=path),
                                      crosshair=text.strip()[-300:]))
    elif 'error:' in text and 'when calling' in text:
        m2 = re.search(r"error: (.*) when calling \w+\((.*)\)", text)
        path = None
        if m2:
            try:
                path = eval(m2.group(2), {})
            except Exception:
                pass
        res['violations'].append(dict(site=task['id'], ob='no-exception', fn=task['fn'], inputs=dict(path=path),
                                      crosshair=text.strip()[-300:]))
    else:
        why = 'Not confirmed' if 'Not confirmed' in text else ('Unable to meet precondition' if 'Unable to meet' in text
                                                               else text.strip()[-200:])
        res['inconclusive'].append(dict(site=task['id'], why=why))
    return res


def replay(w):
    """Concrete call in a fresh process (the harness module is imported with the same stubs)."""
    sys.path.insert(0, os.path.dirname(HARNESS))
    os.environ.setdefault("VERIF_C46_MAXLEN", "8")
    import importlib
    H = importlib.import_module('c46_harness')
    path = w['inputs'].get('path')
    if path is None:
        return None, "no concrete input"
    fn = getattr(H, w['fn'])
    try:
        ok = fn(path)
    except Exception as ex:
        return True, "%s(%r) raised %r" % (w['fn'], path, ex)
    detail = "%s(%r)" % (w['fn'], path)
    if w['fn'] == 'check_unix':
        detail += " -> %r" % H.unix_to_sbpath(path)
    elif w['fn'] == 'check_win':
        detail += " -> %r" % H.windows_to_sbpath(path)
    elif w['fn'].startswith('check_resolve'):
        layout = {'check_resolve_none': 'none', 'check_resolve_nofollow': 'abs'}.get(w['fn'], w['fn'].split('_')[-1])
        H._layout[0] = H.LAYOUTS[layout]
        detail += " -> %r with links %r" % (H.ENV.FileSystem(H.BASE, None).resolve_path(
            path, follow_link=(w['fn'] != 'check_resolve_nofollow')), H.LAYOUTS[layout])
    return (not ok), detail + (" : escapes the base directory" if not ok else " : inside")


if __name__ == '__main__':
    from vf.props import c46
    common.main(c46)
