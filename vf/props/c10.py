"""C10 -- range analysis over-approximates every concrete value.

(a) every ModularIntervals operation is executed with SYMBOLIC interval bounds (and symbolic modulus / shift
    sets); symbolic members x in A, y in B; z3 decides (x op y mod 2^n) in result for all bounds and members.
(b) expr_range(e) is executed on expression templates whose constants are symbolic; z3 decides
    refsem(e) in expr_range(e) for all constants, identifiers and memory bytes.
"""
import random

from vf import common, adapt, simpharness

PROP = 'C10'
LEVEL = 'other'

BINOPS = ['+', '&', '|', '^', '*', '<<', '>>', 'a>>', '<<<', '>>>']

META = dict(
    functions=["miasm.analysis.modularintervals.ModularIntervals: __add__ __neg__ __and__ __or__ __xor__ __mul__ __mod__ "
               "__lshift__ __rshift__ arithmetic_shift_right rotation_left rotation_right union intersection size_update "
               "__contains__ and every _range_* / _interval_* helper", "miasm.analysis.expression_range.expr_range",
               "miasm.core.interval (as used by the above)"],
    stubs=["name `int`/`int_types` in miasm.analysis.modularintervals, miasm.analysis.expression_range, miasm.core.utils bound "
           "to the pass-through"] + adapt.STUBS,
    bounds=dict(quick=dict(interval_op_sizes=[3, 4], intervals_per_operand=1, shifter_intervals='2 for << >> a>> at size 3, else 1', expr_range_base_width=4,
                           expr_range_templates="all depth-1 + shift/rotate-by-conditional shapes + seed-chosen 150 depth-2",
                           query_timeout_s=10),
                thorough=dict(interval_op_sizes=[3, 4, 5], intervals_per_operand=2, shifter_intervals=2, expr_range_base_width=4,
                              expr_range_templates="all depth<=2 typed trees at base width 4 (sizes 1, 4, 8)", query_timeout_s=30)),
    outside=["interval operand sizes above 4 (quick) / 5 (thorough) bits: the Hacker's-Delight bit loops fork per bit "
             "(x5 paths per extra bit)", "more than 2 intervals per operand", "expr_range on widths above 8 bits"],
    assumptions=["operands are well-formed ModularIntervals: 0 <= lo <= hi <= 2^n - 1 (constructor assertion)",
                 "memory: refsem flat model; identifiers unconstrained"],
    rule="(a) task = (operation, size, #intervals); path = one order/bit pattern of the symbolic bounds; (b) task = template; "
         "non-trivial = path reaching the membership obligation",
    explanation="Bounded symbolic verification: interval bounds, moduli and constants are solver variables while the real "
                "range code runs; membership of the concrete result in the returned interval set is proved per path for all "
                "members / valuations.",
)

_MODS = ["miasm.analysis.modularintervals", "miasm.analysis.expression_range", "miasm.core.interval"]


def setup():
    adapt.install(_MODS)
    import miasm.analysis.modularintervals as MI
    from vf.symx import sym_int
    MI.int_types = sym_int


def tasks(tier, seed):
    b = META['bounds'][tier]
    ts = []
    for n in b['interval_op_sizes']:
        for op in BINOPS:
            shapes = [(1, 1)]
            if op in ('<<', '>>', 'a>>', '<<<', '>>>') and (tier == 'thorough' or (n == 3 and op in ('<<', '>>', 'a>>'))):
                shapes.append((1, 2))
            if b['intervals_per_operand'] == 2 and op not in ('*',):
                shapes += [(2, 1)] + ([(1, 2)] if (1, 2) not in shapes else [])
            for na, nb in shapes:
                ts.append(dict(kind='op', op=op, n=n, na=na, nb=nb))
        for op in ['neg', 'mod', 'union', 'inter', 'contains']:
            for na in range(1, b['intervals_per_operand'] + 1):
                ts.append(dict(kind='op', op=op, n=n, na=na, nb=1))
        ts.append(dict(kind='op', op='size_update', n=n, na=1, nb=0))
    # (b)
    n2 = b['expr_range_base_width']
    specs = simpharness.s2(n2)
    from vf import templates
    idxs = list(range(len(specs)))
    if tier == 'quick':
        def is_d1(s):
            return all(x[0] == 'l' for x in s[1:] if isinstance(x, tuple))

        def shift_by_cond(s):
            return s[0] == 'bin' and s[1] in ('<<', '>>', 'a>>', '<<<', '>>>', '%') and isinstance(s[3], tuple) \
                and s[3][0] == 'cond' and s[2][0] == 'l' and s[2][2] == n2
        must = [i for i in idxs if is_d1(specs[i]) or shift_by_cond(specs[i])]
        rnd = random.Random(seed)
        rest = [i for i in idxs if i not in set(must)]
        idxs = sorted(set(must + rnd.sample(rest, 150)))
    for i in idxs:
        ts.append(dict(kind='expr', set='S2', idx=i, n=n2, name=templates.spec_str(specs[i])))
    for t in ts:
        t['tier'] = tier
        if t['kind'] == 'op':
            t['id'] = "op:%s:n%d:%dx%d" % (t['op'], t['n'], t['na'], t['nb'])
            t['cost'] = 5 ** t['n'] * (t['na'] + t['nb'])
        else:
            t['id'] = "expr:%d:%s" % (t['idx'], t['name'])
            t['cost'] = 1
    return ts


def twins(tier):
    return [dict(kind='op', op='+', n=3, na=1, nb=1, tier=tier, id='twin:add-as-sub', bug='add_as_sub')]


def zmember(ivs, v, n):
    """z3: bit-vector v (n bits, unsigned) lies in one of the (lo, hi) python-int/SymInt intervals."""
    import z3
    from vf.symx import lift, ext
    w = n + 2
    vz = z3.ZeroExt(2, v)
    fs = []
    for lo, hi in ivs:
        lo, hi = lift(lo), lift(hi)
        ww = max(w, lo.w, hi.w)
        vv = z3.ZeroExt(ww - n, v)
        fs.append(z3.And(ext(lo.z, lo.w, ww) <= vv, vv <= ext(hi.z, hi.w, ww)))
    return z3.Or(*fs) if fs else z3.BoolVal(False)


def run_task(task):
    setup()
    if task['kind'] == 'expr':
        return run_expr(task)
    import z3
    import time
    from vf.symx import Engine, lift
    from vf.refsem import Ref, bv_of_const
    from miasm.analysis.modularintervals import ModularIntervals
    from miasm.core.interval import interval
    from miasm.expression.expression import ExprId, ExprOp
    res = common.new_result(task)
    b = META['bounds'][task['tier']]
    eng = Engine(timeout_ms=b['query_timeout_s'] * 1000, max_paths=60000)
    eng.deadline = time.time() + (100 if task['tier'] == 'quick' else 1500)
    eng.on_path_end = common.make_known_attributor(common.load_known(PROP), task['id'])
    op, n, na, nb = task['op'], task['n'], task['na'], task['nb']
    mask = (1 << n) - 1
    bug = task.get('bug')

    def mk(eng, pre, k):
        ivs = []
        for i in range(k):
            lo = eng.fresh_int('%s%d_lo' % (pre, i), 0, mask)
            hi = eng.fresh_int('%s%d_hi' % (pre, i), 0, mask)
            eng.assume(lo <= hi)
            ivs.append((lo, hi))
        return ivs

    def fn(eng):
        A = mk(eng, 'a', na)
        B = mk(eng, 'b', nb)
        x = eng.fresh_int('x', 0, mask)
        y = eng.fresh_int('y', 0, mask)
        xb, yb = bv_of_const(x, n), bv_of_const(y, n)
        eng.assume(zmember(A, xb, n))
        if nb:
            eng.assume(zmember(B, yb, n))
        mA = ModularIntervals(n, interval(list(A)))
        mB = ModularIntervals(n, interval(list(B))) if nb else None
        X, Y = ExprId('X', n), ExprId('Y', n)
        ref = Ref()
        ref.env = {('X', n): xb, ('Y', n): yb}
        if op in BINOPS:
            R = {'+': lambda: mA + mB, '&': lambda: mA & mB, '|': lambda: mA | mB, '^': lambda: mA ^ mB,
                 '*': lambda: mA * mB, '<<': lambda: mA << mB, '>>': lambda: mA >> mB,
                 'a>>': lambda: mA.arithmetic_shift_right(mB), '<<<': lambda: mA.rotation_left(mB),
                 '>>>': lambda: mA.rotation_right(mB)}[op]()
            want = ref.tr(ExprOp('-' if bug == 'add_as_sub' else op, X, Y)) if bug != 'add_as_sub' else xb - yb
        elif op == 'neg':
            R = -mA
            want = -xb
        elif op == 'mod':
            m = eng.fresh_int('mod', 1, mask)
            R = mA % m
            want = z3.URem(xb, bv_of_const(m, n))
        elif op == 'union':
            R = mA.union(mB)
            eng.oblige('union-left', zmember(R.intervals, xb, n))
            eng.oblige('union-right', zmember(R.intervals, yb, n))
            return
        elif op == 'inter':
            R = mA.intersection(mB)
            eng.oblige('intersection', z3.Implies(zmember(B, xb, n), zmember(R.intervals, xb, n)))
            return
        elif op == 'contains':
            got = (mB in mA)
            if got:
                eng.oblige('contains-true', zmember(A, yb, n))
            return
        elif op == 'size_update':
            R = mA.size_update(n + 3)
            eng.oblige('size-update-keeps-members', zmember(R.intervals, z3.ZeroExt(3, xb), n + 3))
            eng.oblige('size-updated', z3.BoolVal(R.size == n + 3))
            return
        else:
            raise ValueError(op)
        eng.oblige('member', zmember(R.intervals, want, n))
        eng.oblige('result-size', z3.BoolVal(R.size == n))

    def safe(eng):
        try:
            return fn(eng)
        except Exception as ex:
            import traceback
            eng.fail('no-exception', dict(exc="%s: %s" % (type(ex).__name__, ex), tb=traceback.format_exc()[-500:]))
    recs = eng.explore(safe)
    common.absorb_engine(res, eng, recs, task['id'])
    for v in res['violations']:
        v['task_desc'] = {k: task[k] for k in ('kind', 'op', 'n', 'na', 'nb')}
    res['nontrivial'] = sum(1 for r in recs if r['status'] == 'ok' and r['obligations'])
    res['samples'] = ["%s on %d-bit sets with %d x %d symbolic intervals: %d paths" % (op, n, na, nb, eng.stats['paths'])]
    return res


def run_expr(task):
    import z3
    import time
    from vf.symx import Engine
    from vf.refsem import Ref
    from miasm.analysis.expression_range import expr_range
    res = common.new_result(task)
    b = META['bounds'][task['tier']]
    eng = Engine(timeout_ms=b['query_timeout_s'] * 1000, max_paths=3000)
    eng.deadline = time.time() + (20 if task['tier'] == 'quick' else 600)
    eng.on_path_end = common.make_known_attributor(common.load_known(PROP), task['id'])

    def fn(eng):
        adapt.reset()

        def cf(i, size):
            return eng.fresh_int('c%d_%d' % (i, size), 0, (1 << size) - 1)
        e = simpharness.build_template(task, cf)
        ref = Ref()
        v = ref.tr(e)
        try:
            R = expr_range(e)
        except Exception as ex:
            import traceback
            # an expression whose divisor is zero under every valuation of this path has no defined value:
            # a failure there is outside the property
            divs = ref.nonzero_divisors()
            eng.oblige('no-exception', z3.Not(z3.And(*divs)) if divs else z3.BoolVal(False),
                       dict(exc="%s: %s" % (type(ex).__name__, ex), tb=traceback.format_exc()[-500:]))
            return
        cond = zmember(R.intervals, v, e.size)
        divs = ref.nonzero_divisors()
        if divs:
            cond = z3.Implies(z3.And(*divs), cond)
        m = eng.oblige('value-in-range', cond)
        eng.oblige('range-size', z3.BoolVal(R.size == e.size))
        if m is not None and m != 'inconclusive':
            rec = eng.path_out[-2]
            rec['ids'] = {k[0]: m.eval(vv, model_completion=True).as_long() for k, vv in ref.ids.items()}
    recs = eng.explore(fn)
    common.absorb_engine(res, eng, recs, task['id'])
    for v in res['violations']:
        v['task_desc'] = {k: task[k] for k in ('kind', 'set', 'idx', 'n', 'name')}
    res['nontrivial'] = sum(1 for r in recs if r['status'] == 'ok' and r['obligations'])
    res['samples'] = ["expr_range(%s): %d paths" % (task['name'], eng.stats['paths'])]
    return res


def replay(w):
    import random
    from vf.ceval import ceval, Undefined
    t = w['task_desc']
    inp = w.get('inputs', {})
    if t['kind'] == 'expr':
        from miasm.analysis.expression_range import expr_range

        def cf(i, size):
            return inp.get('c%d_%d' % (i, size), 0)
        e = simpharness.build_template(t, cf)
        try:
            R = expr_range(e)
        except Exception as ex:
            return True, "expr_range(%s) raised %r" % (e, ex)
        names = set()

        def cb(x):
            if x.is_id():
                names.add((x.name, x.size))
            return x
        e.visit(cb)
        rnd = random.Random(7)
        trials = [w.get('ids', {})] + [{nm: rnd.getrandbits(sz) for nm, sz in names} for _ in range(3000)]
        for ids in trials:
            full = {nm: ids.get(nm, 0) for nm, sz in names}
            for ms in range(3):
                mem = lambda a, ms=ms: (a * 2654435761 + ms * 977) >> 3 & 0xff
                try:
                    v = ceval(e, full, mem)
                except Undefined:
                    continue
                if v not in R.intervals or R.size != e.size:
                    return True, "%s = 0x%x under %r is outside expr_range = %s" % (e, v, full, R)
        return False, "%s: all probed values inside %s" % (e, R)
    from miasm.analysis.modularintervals import ModularIntervals
    from miasm.core.interval import interval
    from miasm.expression.expression import ExprInt, ExprOp
    n = t['n']
    A = [(inp['a%d_lo' % i], inp['a%d_hi' % i]) for i in range(t['na'])]
    B = [(inp['b%d_lo' % i], inp['b%d_hi' % i]) for i in range(t['nb'])]
    mA = ModularIntervals(n, interval(list(A)))
    mB = ModularIntervals(n, interval(list(B))) if t['nb'] else None
    op = t['op']
    try:
        if op in BINOPS:
            R = {'+': lambda: mA + mB, '&': lambda: mA & mB, '|': lambda: mA | mB, '^': lambda: mA ^ mB,
                 '*': lambda: mA * mB, '<<': lambda: mA << mB, '>>': lambda: mA >> mB,
                 'a>>': lambda: mA.arithmetic_shift_right(mB), '<<<': lambda: mA.rotation_left(mB),
                 '>>>': lambda: mA.rotation_right(mB)}[op]()
            f = lambda x, y: ceval(ExprOp(op, ExprInt(x, n), ExprInt(y, n)), {}, None)
        elif op == 'neg':
            R = -mA
            f = lambda x, y: (-x) & ((1 << n) - 1)
        elif op == 'mod':
            R = mA % inp['mod']
            f = lambda x, y: x % inp['mod']
        elif op == 'union':
            R = mA.union(mB)
            f = None
        elif op == 'inter':
            R = mA.intersection(mB)
            f = None
        elif op == 'contains':
            got = mB in mA
            ok = all(any(lo <= v <= hi for lo, hi in A) for l2, h2 in B for v in range(l2, h2 + 1))
            return (got and not ok), "%r in %r gives %r" % (B, A, got)
        elif op == 'size_update':
            R = mA.size_update(n + 3)
            f = lambda x, y: x
    except Exception as ex:
        return True, "%s raised %r on A=%r B=%r" % (op, ex, A, B)
    xs = [v for lo, hi in A for v in range(lo, hi + 1)]
    ys = [v for lo, hi in B for v in range(lo, hi + 1)] or [0]
    for x in xs:
        for y in ys:
            if op == 'union':
                vals = [x, y]
            elif op == 'inter':
                vals = [x] if any(lo <= x <= hi for lo, hi in B) else []
            else:
                vals = [f(x, y)]
            for v in vals:
                if v not in R.intervals:
                    return True, "%s: A=%r B=%r x=%d y=%d gives %d, not in %s" % (op, A, B, x, y, v, R)
    return False, "%s: A=%r B=%r all members inside %s" % (op, A, B, R)


if __name__ == '__main__':
    from vf.props import c10
    common.main(c10)
