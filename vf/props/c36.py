"""C36 -- see DESIGN.md §3.  Real transformation passes are run on generated and lifted IR graphs; original and transformed
graphs are compared by bounded symbolic execution (vf/irsym.py) with z3 deciding equality of memory writes, exit and
output registers for EVERY initial state of each explored path.
"""
from vf import common, irharness

PROP = 'C36'
LEVEL = 'translation_validation'
VARIANTS = ['simp-common', 'simp-ssa']

META = dict(
    functions=["miasm.analysis.simplifier.IRCFGSimplifierCommon.simplify", "IRCFGSimplifierSSA.simplify (SSA, propagation, dead code removal, phi removal, out-of-SSA, merge blocks)", "miasm.analysis.data_flow.DeadRemoval / PropagateExpressions / merge_blocks / remove_empty_assignblks / del_unused_edges", "miasm.analysis.ssa / outofssa"],
    stubs=[],
    bounds=dict(quick=dict(generated_programs="5 per skeleton x 14 skeletons", lifted_functions=12, max_blocks_per_path=40,
                           max_visits_per_block=8, query_timeout_s=15),
                thorough=dict(generated_programs="60 per skeleton x 14 skeletons", lifted_functions=12, max_blocks_per_path=40,
                              max_visits_per_block=8, query_timeout_s=60)),
    outside=["paths longer than 40 blocks or visiting a block more than 8 times (counted as cut paths in evidence)",
             "programs other than the generated/lifted ones (the quantifier over programs is an enumeration)",
             "calls are uninterpreted pure functions (a removed call whose results are dead is not observed)"],
    assumptions=["output registers = LifterModelCall.get_out_regs (EAX, ESP), read at exit through the variable standing for them (all_ssa_vars)", "memory writes are compared as a sequence at byte granularity"],
    rule="program = generated skeleton x statements or lifted x86_32 function; each explored path of the original graph is "
         "compared with the transformed graph for all initial states; non-trivial = program with at least 2 explored paths",
    explanation="Translation validation of the plain and the SSA-based IR simplification pipelines: for every explored path the simplified graph is proved to perform the same byte-write sequence, reach the same exit and leave the same EAX/ESP as the original for all initial states.",
    trusted_base=["z3 5.1", "vf/refsem.py", "vf/irsym.py (IR executor)", "vf/irprog.py (program supply, comparison)"],
)


def tasks(tier, seed):
    return irharness.make_tasks(irharness.programs(tier, seed), VARIANTS, tier)


def twins(tier):
    import random
    from vf import irprog
    p = irprog.gen_program(random.Random(5), 'diamond')
    return [dict(id='twin:changed-program', items=[('twin', 'gen', p, VARIANTS[0])], tier=tier, bug='compare-with-empty')]


def run_task(task):
    return irharness.run_task(task, PROP, META)


def replay(w):
    return irharness.replay(w, PROP)


if __name__ == '__main__':
    from vf.props import c36
    common.main(c36)
