"""C03 -- constant evaluation follows fixed-width two's-complement arithmetic.

The real expr_simp (simp_cst_propagation, simp_cmp_int_int, simp_ext_cst, simp_flag_cst -> simp_flags,
simp_bcdadd*, modint) is executed on ExprOp(op, ExprInt(a,w), ExprInt(b,w)[, ExprInt(c,..)]) with a, b, c
SYMBOLIC over their whole range; per path z3 decides `result == refsem(op)(a,b)` for every value.
"""
import sys
import time

from vf import common, adapt

PROP = 'C03'
LEVEL = 'other'

BIN_BITWISE = ['+', '^', '&', '|', '-', '>>', '<<', 'a>>', '>>>', '<<<']
CMP = ['==', '<u', '<s', '<=u', '<=s']
DIV = ['/', '%', 'udiv', 'umod', 'sdiv', 'smod']
UN = ['-u', 'parity', 'cntleadzeros', 'cnttrailzeros']
FLAGS2 = ['FLAG_EQ_AND', 'FLAG_SIGN_SUB', 'FLAG_EQ_CMP', 'FLAG_ADD_CF', 'FLAG_SUB_CF', 'FLAG_ADD_OF',
          'FLAG_SUB_OF']
FLAGS3 = ['FLAG_EQ_ADDWC', 'FLAG_ADDWC_OF', 'FLAG_SUBWC_OF', 'FLAG_ADDWC_CF', 'FLAG_SUBWC_CF',
          'FLAG_SIGN_ADDWC', 'FLAG_SIGN_SUBWC', 'FLAG_EQ_SUBWC']
CC = {'CC_U<=': 2, 'CC_U>=': 1, 'CC_S<': 2, 'CC_S>': 3, 'CC_S<=': 3, 'CC_S>=': 2, 'CC_U>': 2, 'CC_U<': 1,
      'CC_NEG': 1, 'CC_EQ': 1, 'CC_NE': 1, 'CC_POS': 1}

META = dict(
    functions=["miasm.expression.simplifications.expr_simp (ExpressionSimplifier.visit/apply_simp)",
               "simplifications_common.simp_cst_propagation", "simp_cmp_int_int", "simp_ext_cst",
               "simp_flag_cst", "simplifications_explicit.simp_flags", "simp_bcdadd", "simp_bcdadd_cf",
               "simp_slice", "simp_compose", "simp_cond", "expression_helper.parity",
               "core.modint.moduint/modint methods", "ExprInt.__new__"],
    stubs=adapt.STUBS,
    bounds=dict(
        quick=dict(widths_bitwise=[1, 2, 3, 8, 16, 32, 64, 128], widths_mul=[1, 3, 8, 16], widths_div=[1, 3, 4, 6],
                   widths_cmp=[1, 3, 8, 32, 64, 128], max_flag_width=32, query_timeout_s=10),
        thorough=dict(widths_bitwise=[1, 2, 3, 4, 5, 7, 8, 13, 16, 24, 32, 48, 64, 80, 128],
                      widths_mul=[1, 2, 3, 8, 16, 24, 32], widths_div=[1, 2, 3, 4, 5, 6, 7, 8, 10],
                      widths_cmp=[1, 2, 3, 4, 8, 16, 32, 64, 128], max_flag_width=128, query_timeout_s=60)),
    outside=["widths other than those listed", "`**` with symbolic exponent above 5 bits",
             "multiplication above 32 bits and division above 10 bits (solver cost)",
             "floating point operators"],
    assumptions=["operands range over [0, 2^w) (ExprInt normalises its argument)",
                 "bcdadd/bcdadd_cf reference = 4-digit decimal adder over the low 16 bits"],
    rule="one task per (operator, width); non-trivial = obligation reached with symbolic operands "
         "(paths that reached the value obligation)",
    explanation="Bounded symbolic verification: the real constant-folding code is executed with symbolic "
                "operands; for every path the SMT solver proves result == textbook two's-complement value "
                "for all operand values of that width (or returns a counterexample that is replayed).",
)


def _setup():
    adapt.install()
    return adapt


def mk_tasks(tier):
    b = META['bounds'][tier]
    ts = []
    for w in b['widths_bitwise']:
        for op in BIN_BITWISE + UN:
            ts.append(dict(kind='op', op=op, w=w))
        if w > b['max_flag_width']:
            continue
        for op in FLAGS2 + ['FLAG_EQ']:
            ts.append(dict(kind='op', op=op, w=w))
        for op in FLAGS3:
            ts.append(dict(kind='op', op=op, w=w))
    for w in b['widths_cmp']:
        for op in CMP:
            ts.append(dict(kind='op', op=op, w=w))
    for w in b['widths_mul']:
        ts.append(dict(kind='op', op='*', w=w))
        ts.append(dict(kind='op', op='**', w=w))
    for w in b['widths_div']:
        for op in DIV:
            ts.append(dict(kind='op', op=op, w=w))
    for op in CC:
        ts.append(dict(kind='op', op=op, w=1))
    exts = [(1, 8), (3, 8), (8, 16), (8, 32), (16, 64), (32, 64), (64, 128), (7, 13)]
    if tier == 'thorough':
        exts += [(1, 2), (1, 128), (8, 9), (31, 32), (32, 128), (63, 64), (16, 17)]
    for (a, bb) in exts:
        ts.append(dict(kind='op', op='zeroExt_%d' % bb, w=a))
        ts.append(dict(kind='op', op='signExt_%d' % bb, w=a))
    for w in ([16, 32] if tier == 'quick' else [16, 32, 64]):
        ts.append(dict(kind='op', op='bcdadd', w=w))
        ts.append(dict(kind='op', op='bcdadd_cf', w=w))
    # slices / compose / cond of constants
    for (w, lo, hi) in [(8, 0, 8), (8, 2, 5), (32, 8, 24), (64, 31, 33), (128, 60, 70), (16, 15, 16)]:
        ts.append(dict(kind='slice', w=w, lo=lo, hi=hi, op='slice'))
    for parts in [(8, 8), (1, 7), (16, 8, 8), (32, 32), (3, 5, 8), (64, 64)]:
        ts.append(dict(kind='compose', parts=list(parts), op='compose', w=sum(parts)))
    for w in [1, 8, 32, 128]:
        ts.append(dict(kind='cond', w=w, op='cond'))
    # three-operand associative folding
    for w in ([8, 32] if tier == 'quick' else [3, 8, 32, 64]):
        for op in ['+', '^', '&', '|']:
            ts.append(dict(kind='op3', op=op, w=w))
    if tier == 'thorough':
        for op in ['*']:
            ts.append(dict(kind='op3', op=op, w=8))
    for t in ts:
        t['id'] = "%s:%s:w%s%s" % (t['kind'], t['op'], t['w'],
                                   (':%d-%d' % (t['lo'], t['hi'])) if t['kind'] == 'slice' else
                                   (':' + '_'.join(map(str, t['parts']))) if t['kind'] == 'compose' else '')
    return ts


def tasks(tier, seed):
    ts = mk_tasks(tier)
    for t in ts:
        t['tier'] = tier
        t['cost'] = t['w'] * (4 if t['op'].startswith('FLAG') else 1)
    return ts


def twins(tier):
    return [dict(kind='op', op='a>>', w=8, id='twin:a>>:w8', tier=tier, bug='ashr_as_lshr'),
            dict(kind='op', op='sdiv', w=4, id='twin:sdiv:w4', tier=tier, bug='sdiv_floor'),
            dict(kind='op', op='FLAG_ADD_CF', w=8, id='twin:addcf:w8', tier=tier, bug='addcf_as_of')]


def build(task, E, ints):
    """Returns (expr, n_operands_used)."""
    from miasm.expression.expression import ExprOp, ExprInt, ExprSlice, ExprCompose, ExprCond
    k = task['kind']
    w = task['w']
    op = task['op']
    if k == 'op':
        if op == '-u':
            return ExprOp('-', ExprInt(ints[0], w))
        if op in ('parity', 'cntleadzeros', 'cnttrailzeros', 'FLAG_EQ') or op.startswith('zeroExt_') \
                or op.startswith('signExt_'):
            return ExprOp(op, ExprInt(ints[0], w))
        if op in FLAGS3:
            return ExprOp(op, ExprInt(ints[0], w), ExprInt(ints[1], w), ExprInt(ints[2], 1))
        if op in CC:
            return ExprOp(op, *[ExprInt(ints[i], 1) for i in range(CC[op])])
        return ExprOp(op, ExprInt(ints[0], w), ExprInt(ints[1], w))
    if k == 'op3':
        return ExprOp(op, ExprInt(ints[0], w), ExprInt(ints[1], w), ExprInt(ints[2], w))
    if k == 'slice':
        return ExprSlice(ExprInt(ints[0], w), task['lo'], task['hi'])
    if k == 'compose':
        return ExprCompose(*[ExprInt(ints[i], p) for i, p in enumerate(task['parts'])])
    if k == 'cond':
        return ExprCond(ExprInt(ints[0], w), ExprInt(ints[1], w), ExprInt(ints[2], w))
    raise ValueError(k)


def operand_ranges(task):
    k, w, op = task['kind'], task['w'], task['op']
    full = (1 << w) - 1
    if k == 'op':
        if op in FLAGS3:
            return [full, full, 1]
        if op in CC:
            return [1] * CC[op]
        if op == '**':
            return [full, min(full, 31)]
        if op in ('-u', 'parity', 'cntleadzeros', 'cnttrailzeros', 'FLAG_EQ') or 'Ext_' in op:
            return [full]
        return [full, full]
    if k == 'op3':
        return [full] * 3
    if k == 'slice':
        return [full]
    if k == 'compose':
        return [(1 << p) - 1 for p in task['parts']]
    if k == 'cond':
        return [full] * 3


def run_task(task):
    import z3
    adapt = _setup()
    from vf.symx import Engine, SymInt
    from vf.refsem import Ref, bv_of_const, bcdadd_ref
    from miasm.expression.simplifications import expr_simp
    res = common.new_result(task)
    tmo = META['bounds'][task['tier']]['query_timeout_s']
    eng = Engine(timeout_ms=tmo * 1000, max_paths=20000)
    known = common.load_known(PROP)
    site = task['id'].replace('twin:', '')
    eng.on_path_end = common.make_known_attributor(known, task['id'])
    bug = task.get('bug')
    ranges = operand_ranges(task)
    reached = [0]

    def fn(eng):
        adapt.reset()
        ints = [eng.fresh_int('x%d' % i, 0, hi) for i, hi in enumerate(ranges)]
        e = build(task, None, ints)
        try:
            r = expr_simp(e)
        except Exception as ex:
            eng.fail('no-exception', dict(exc="%s: %s" % (type(ex).__name__, ex)))
            return
        ref = Ref(bugs=frozenset([bug]) if bug == 'ashr_as_lshr' else frozenset())
        op = task['op']
        if op in ('bcdadd', 'bcdadd_cf'):
            x = bv_of_const(ints[0], task['w'])
            y = bv_of_const(ints[1], task['w'])
            val, cf = bcdadd_ref(x, y, task['w'])
            want = val if op == 'bcdadd' else cf
        elif op == '**':
            # the exponent was concretised by the code under test on this path
            from miasm.expression.expression import ExprOp, ExprInt
            want = ref.tr(ExprOp('**', e.args[0], ExprInt(int(ints[1]), task['w'])))
        else:
            want = ref.tr(e)
        if bug == 'sdiv_floor':
            a, b = [bv_of_const(i, task['w']) for i in ints]
            q = a / b
            want = z3.If(z3.And(z3.SRem(a, b) != 0, (a < 0) != (b < 0)), q - 1, q)
        if bug == 'addcf_as_of':
            from miasm.expression.expression import ExprOp, ExprInt
            want = ref.tr(ExprOp('FLAG_ADD_OF', *e.args))
        if op in ('/', '%', 'udiv', 'umod', 'sdiv', 'smod'):
            d = bv_of_const(ints[1], task['w'])
            if r.is_op():
                # miasm declines to fold: allowed exactly when the divisor is zero
                eng.oblige('unfolded-only-if-div0', d == 0)
                return
            eng.assume(d != 0)
        reached[0] += 1
        if not r.is_int():
            eng.fail('result-is-constant', dict(got=str(r)[:200]))
            return
        if r.size != e.size:
            eng.fail('same-size', dict(got=r.size))
            return
        eng.oblige('value', bv_of_const(r.arg, r.size) == want)

    recs = eng.explore(fn)
    common.absorb_engine(res, eng, recs, task['id'])
    for v in res['violations']:
        v['task_desc'] = {k: task[k] for k in task if k not in ('id', 'tier')}
    res['nontrivial'] = reached[0]
    res['samples'] = ["%s: %d paths, %d obligations, %d discharged" % (
        task['id'], eng.stats['paths'], eng.stats['obligations'], eng.stats['discharged'])]
    return res


def replay(w):
    """Concrete re-run on unpatched miasm with an independent evaluator."""
    from miasm.expression.simplifications import expr_simp
    from vf.ceval import ceval, Undefined
    task = w['task_desc']
    inp = w['inputs']
    ints = [inp['x%d' % i] for i in range(len(operand_ranges(task)))]
    e = build(task, None, ints)
    try:
        r = expr_simp(e)
    except Exception as ex:
        return True, "expr_simp(%s) raised %r" % (e, ex)
    if task['op'] in ('bcdadd', 'bcdadd_cf'):
        return True, "bcd: %s -> %s (no independent concrete oracle; solver verdict)" % (e, r)
    try:
        want = ceval(e, {}, None)
    except Undefined:
        return (not r.is_op()), "division by zero: %s -> %s" % (e, r)
    if not r.is_int():
        return True, "%s -> %s is not a constant (expected 0x%x)" % (e, r, want)
    if int(r) != want or r.size != e.size:
        return True, "%s -> %s but two's-complement value is 0x%x" % (e, r, want)
    return False, "%s -> %s agrees with reference 0x%x" % (e, r, want)


if __name__ == '__main__':
    from vf.props import c03
    common.main(c03)
