"""C39 -- dependency-graph slices are faithful to the program.

For each solution of the real DependencyGraph.get on loop-free generated IR graphs: (1) the values returned by
DependencyResult.emul() (symbolic execution of the SLICED assignments along the solution history) are proved
equal, for every initial state, to direct execution (vf/irsym.py) of the FULL blocks along the same history;
(2) in implicit mode the solver constraints recorded by the solution are proved equivalent to the path condition
of that block sequence (concrete inputs satisfy them exactly when execution follows the history).
"""
import random

from vf import common, irprog

PROP = 'C39'
LEVEL = 'other'
CHUNK = 2
SKELS = ['straight', 'diamond', 'nested-diamond', 'store-reload', 'merge-save-restore', 'swap-diamond', 'nested-cond']

META = dict(
    functions=["miasm.analysis.depgraph.DependencyGraph.get / _track_exprs / _compute_intrablock / _compute_interblock_dep",
               "DependencyResult.emul / irblock_slice / relevant_loc_keys / history", "DependencyResultImplicit.emul / "
               "_gen_path_constraints", "miasm.expression.expression_helper.possible_values / CondConstraint*.to_constraint",
               "miasm.ir.symbexec (as used by emul)", "miasm.ir.translators.z3_ir (implicit constraints)"],
    stubs=[],
    bounds=dict(quick=dict(programs="8 per skeleton x 7 loop-free skeletons (incl. nested conditional destinations)", targets="registers {EAX}, {EBX, ECX}, {EDX} at the exit "
                           "block and the last store before it", query_timeout_s=8),
                thorough=dict(programs="60 per skeleton x 7 loop-free skeletons", targets="same", query_timeout_s=60)),
    outside=["graphs with loops (emul is documented as unsound for loop variants)", "follow_call / follow_mem switched off",
             "targets other than those listed"],
    assumptions=["non-aliasing of different symbolic bases (as the symbolic engine assumes)", "implicit mode: memory of the z3 "
                 "translator (array mem32) and of the direct executor are identified; all pointers are 32 bits wide"],
    rule="program = loop-free generated graph; every (target, solution) pair is an obligation set; non-trivial = solution whose "
         "history has at least 2 blocks",
    explanation="For every dependency solution z3 proves slice value == full-program value for all initial states, and (implicit "
                "mode) recorded path constraints <=> path condition of the history.",
)


def gen(rnd, sk):
    if sk == 'nested-cond':
        # a destination written as a nested conditional whose two levels share a target: IRDst = c1 ? B1 : (c2 ? B1 : B2)
        # (and the mirrored form); the path constraints of an edge are then a disjunction over both levels
        g = irprog.Gen(rnd)
        K, L, R = irprog.K, irprog.L, irprog.R
        c1, c2 = g.cond(), g.cond()
        B = {}
        if rnd.random() < 0.5:
            dst = K(c1, L('B1'), K(c2, L('B1'), L('B2')))
        else:
            dst = K(c1, K(c2, L('B2'), L('B1')), L('B2'))
        B['B0'] = g.body(1, 2) + [[(irprog.IRDST, dst)]]
        B['B1'] = g.body(1, 2) + irprog.jmp('J')
        B['B2'] = g.body(1, 2) + irprog.jmp('J')
        B['J'] = g.body(0, 1) + irprog.jmp('EX')
        B['EX'] = irprog.dump_regs_block(g.regs) + irprog.RETBLK
        return dict(head='B0', blocks=B, skeleton=sk)
    if sk != 'swap-diamond':
        return irprog.gen_program(rnd, sk, dump=True)
    g = irprog.Gen(rnd)
    R, O, C = irprog.R, irprog.O, irprog.C
    a, b, c = rnd.sample(g.regs, 3)
    B = {}
    B['B0'] = [[(R(b), g.expr())]] + g.body(0, 1) + irprog.br(g.cond(), 'B1', 'B2')
    B['B1'] = [[(R(a), R(b)), (R(b), R(c))], [(R(c), R(a))]] + irprog.jmp('J')
    B['B2'] = [[(R(c), R(a)), (R(b), R(c)), (R(a), R(b))]] + g.body(0, 1) + irprog.jmp('J')
    B['J'] = [[(R('EAX'), O('+', R(a), R(b)))]] + irprog.jmp('EX')
    B['EX'] = irprog.dump_regs_block(g.regs) + irprog.RETBLK
    return dict(head='B0', blocks=B, skeleton=sk)


def programs(tier):
    n = 8 if tier == 'quick' else 60
    out = []
    for k, sk in enumerate(SKELS):
        rnd = random.Random(390000 + 1000 * k)
        for i in range(n):
            out.append(('gen:%s:%d' % (sk, i), gen(rnd, sk)))
    return out


def tasks(tier, seed):
    ps = programs(tier)
    return [dict(id='dg:%05d' % i, progs=ps[i:i + CHUNK], tier=tier) for i in range(0, len(ps), CHUNK)]


def twins(tier):
    return [dict(id='twin:reference-plus-one', progs=programs('quick')[0:1], tier=tier, bug='flip')]


def check_program(spec, timeout_s, bug=None):
    import z3
    from miasm.core.locationdb import LocationDB
    from miasm.analysis.depgraph import DependencyGraph
    from miasm.expression.expression import ExprId
    from vf.refsem import Ref
    from vf import irsym
    loc_db = LocationDB()
    machine, lifter = irprog.make_lifter(loc_db)
    g, head = irprog.build_generated(spec, loc_db, lifter)
    regs = lifter.arch.regs
    ex_loc = loc_db.get_name_location('EX')
    out = dict(nob=0, ndis=0, viol=[], inc=[], sols=0, nontrivial=0, queries=0)
    targets = [([regs.EAX], 0), ([regs.EBX, regs.ECX], 0), ([regs.EDX], 2)]
    mem32 = z3.Array('mem32', z3.BitVecSort(32), z3.BitVecSort(8))
    for implicit in (False, True):
        dg = DependencyGraph(g, implicit=implicit)
        for elements, line_nb in targets:
            for sol in dg.get(ex_loc, set(elements), line_nb, set([head])):
                out['sols'] += 1
                hist = sol.history[::-1]
                if len(hist) >= 2:
                    out['nontrivial'] += 1
                vals = sol.emul(lifter)
                # ---- reference: full blocks along the same history
                ref0 = Ref()
                ref0.loc_db = loc_db
                ref0.mem = lambda a64: z3.Select(mem32, z3.Extract(31, 0, a64))
                st = irsym.State(ref0)
                pcs = []
                for hi, lk in enumerate(hist):
                    blk = g.blocks[lk]
                    abs_ = list(blk)
                    if hi == len(hist) - 1:
                        abs_ = abs_[:line_nb]
                        if bug == 'truncate':
                            abs_ = abs_[:-1] if abs_ else abs_
                    opts = None
                    for ab in abs_:
                        exq = irsym.Exec(st)
                        if lifter.IRDst in ab:
                            opts = irsym.dst_options(exq, ab[lifter.IRDst], loc_db)
                        irsym.exec_assignblk(st, ab)
                    if hi < len(hist) - 1:
                        nxt = hist[hi + 1]
                        conds = [c for c, t in (opts or []) if t == ('loc', nxt)]
                        pcs.append(z3.Or(*conds) if conds else z3.BoolVal(False))
                # ---- engine-side accesses for the non-aliasing hypotheses: pointers of the stored cells and of the values
                acc = list(st.accesses)
                s = z3.Solver()
                s.set('timeout', timeout_s * 1000)
                hyp = irsym.non_aliasing_hypotheses([acc])
                if hyp:
                    s.add(*hyp)
                obs = []
                for el in sol.inputs if False else elements:
                    if el not in vals:
                        continue
                    obs.append(('slice-value:%s' % el, ref0.tr(vals[el]) == (st.reg(el.name, el.size) + (1 if bug == 'flip' else 0))))
                if bug == 'truncate' and not obs:
                    obs.append(('slice-value', z3.BoolVal(True)))
                if implicit and pcs:
                    cons = z3.And(*sol._solver.assertions()) if len(sol._solver.assertions()) else z3.BoolVal(True)
                    obs.append(('implicit-constraints-iff-history', cons == z3.And(*pcs)))
                for name, f in obs:
                    out['nob'] += 1
                    out['queries'] += 1
                    s.push()
                    s.add(z3.Not(f))
                    r = s.check()
                    if r == z3.unsat:
                        out['ndis'] += 1
                    elif r == z3.unknown:
                        out['inc'].append(name)
                    else:
                        m = s.model()
                        ids = {k[0]: m.eval(v, model_completion=True).as_long() for k, v in ref0.ids.items()}
                        out['viol'].append(dict(ob=name.split(':')[0], ids=ids, inputs=ids, implicit=implicit,
                                                history=[loc_db.pretty_str(x) for x in hist], elements=[str(e) for e in elements],
                                                line=line_nb, slice_values={str(k): str(v) for k, v in vals.items()}))
                    s.pop()
                if out['viol']:
                    out['graph'] = irprog.dump_graph(g)
                    return out
    out['graph'] = irprog.dump_graph(g)
    return out


def run_task(task):
    import time
    res = common.new_result(task)
    known = [k for k in common.load_known(PROP) if k.get('status', 'known') == 'known']
    tmo = META['bounds'][task['tier']]['query_timeout_s']
    t0 = time.time()
    for pid, spec in task['progs']:
        try:
            out = check_program(spec, tmo, task.get('bug'))
        except Exception as ex:
            import traceback
            res['obligations'] += 1
            res['violations'].append(dict(site=pid, ob='no-exception', spec=spec, inputs={}, exc="%s: %s" % (type(ex).__name__, ex),
                                          tb=traceback.format_exc()[-800:]))
            continue
        res['obligations'] += out['nob']
        res['discharged'] += out['ndis']
        res['queries'] += out['queries']
        res['paths'] += out['sols']
        res['nontrivial'] += out['nontrivial']
        for v in out['viol']:
            v.update(site=pid, spec=spec, graph=out.get('graph', '')[:1500])
            for k in known:
                if common.site_matches(k, pid):
                    v['known'] = k['id']
            res['violations'].append(v)
        for x in sorted(set(out['inc'])):
            res['inconclusive'].append(dict(site=pid, why=x))
        if not res['samples']:
            res['samples'].append(dict(program=pid, graph=out.get('graph', '')[:600], solutions=out['sols']))
    res['solver_s'] = time.time() - t0
    return res


def replay(w):
    """Concrete replay: slice emulation with the witness's initial values vs independent concrete execution of the full
    blocks along the history."""
    from miasm.core.locationdb import LocationDB
    from miasm.analysis.depgraph import DependencyGraph
    from miasm.expression.expression import ExprInt, ExprId
    spec = w['spec']
    if w.get('ob') == 'no-exception':
        try:
            check_program(spec, 20)
        except Exception as ex:
            return True, "dependency graph on %s raised %s: %s" % (w.get('site'), type(ex).__name__, ex)
        return False, "no exception"
    out = check_program(spec, 30)
    for v in out['viol']:
        if v['ob'] == w['ob']:
            return True, "program %s, target %s at EX line %d, history %s (implicit=%s): %s for initial state %r; slice values %r\n%s" % (
                w.get('site'), v['elements'], v['line'], v['history'], v['implicit'], v['ob'], v['inputs'], v['slice_values'],
                out.get('graph', ''))
    return False, "slices agree with the program"


if __name__ == '__main__':
    from vf.props import c39
    common.main(c39)
