"""C28 -- the location database stays consistent.

Bounded histories of LocationDB API calls (CBMC-style nondeterministic driver: operation codes and arguments are
solver variables, enumerated exhaustively by the symx engine since names/offsets are dictionary keys) are run on
the real class next to a 40-line relational model; after every call: same observable state as the model,
consistency_check() passes, rejected calls leave the database unchanged, non-strict creation returns the
location carrying the requested name and offset, merge imports every association.
"""
import builtins

from vf import common

PROP = 'C28'
LEVEL = 'other'
NAMES = ['n0', 'n1']
OFFS = [0, 0x10]

META = dict(
    functions=["miasm.core.locationdb.LocationDB.add_location (strict / non-strict) / add_location_name / remove_location_name / "
               "set_location_offset (force / no force) / unset_location_offset / remove_location / merge / consistency_check / "
               "get_* accessors / get_or_create_*"],
    stubs=[],
    bounds=dict(quick=dict(history_steps=3, names=NAMES, offsets=OFFS, locations="up to 3"),
                thorough=dict(history_steps=4, names=NAMES, offsets=OFFS, locations="up to 4")),
    outside=["histories longer than 4 calls", "merges that conflict with the receiving database (they may raise after a partial "
             "import)", "deprecated API aliases", "expression canonisation helpers"],
    assumptions=["non-strict add_location(name, offset) with a known name attaches the offset to that name's location when "
                 "possible, with a known offset attaches the name; both known and different locations => rejected"],
    rule="history = K API calls with enumerated arguments (operation, location index, name, offset, flags); non-trivial = "
         "history with at least one rejected call or a merge",
    explanation="Bounded exhaustive exploration of API histories (solver-driven enumeration) of the real LocationDB against a "
                "relational model, with consistency_check() after every call.",
)

OPS = ['add_strict', 'add_loose', 'add_name', 'rm_name', 'set_off', 'set_off_force', 'unset_off', 'rm_loc', 'get_or_create_name',
       'get_or_create_off', 'merge']


def tasks(tier, seed):
    K = META['bounds'][tier]['history_steps']
    ts = []
    for i, op in enumerate(OPS[:2]):
        for n in range(len(NAMES) + 1):
            for o in range(len(OFFS) + 1):
                ts.append(dict(first=(i, n, o), K=K, tier=tier, id='hist:%s:%s:%s' % (op, n, o)))
    return ts


def twins(tier):
    return [dict(first=(0, 0, 0), K=2, tier=tier, id='twin:model-allows-duplicate-names', bug='dup_names')]


class Model(object):
    def __init__(self, bug=None):
        self.locs = {}      # key(int) -> [set(names), offset or None]
        self.next = 0
        self.bug = bug

    def name_loc(self, n):
        for k, (ns, o) in self.locs.items():
            if n in ns:
                return k
        return None

    def off_loc(self, off):
        for k, (ns, o) in self.locs.items():
            if o == off:
                return k
        return None

    def snapshot(self):
        return sorted((k, sorted(ns), o) for k, (ns, o) in self.locs.items())

    def new(self, name, off):
        k = self.next
        self.next += 1
        self.locs[k] = [set([name]) if name is not None else set(), off]
        return k

    def add(self, name, off, strict):
        """returns ('ok', key) or ('rejected',)"""
        nl = self.name_loc(name) if name is not None else None
        ol = self.off_loc(off) if off is not None else None
        if self.bug == 'dup_names':
            nl = None
        if strict:
            if nl is not None or ol is not None:
                return ('rejected',)
            return ('ok', self.new(name, off))
        if nl is not None:
            if off is not None:
                if ol is not None and ol != nl:
                    return ('rejected',)
                cur = self.locs[nl][1]
                if cur is not None and cur != off:
                    return ('rejected',)
                self.locs[nl][1] = off
            return ('ok', nl)
        if ol is not None:
            if name is not None:
                self.locs[ol][0].add(name)
            return ('ok', ol)
        return ('ok', self.new(name, off))


def snapshot(db):
    return sorted((lk.key, sorted(db.get_location_names(lk)), db.get_location_offset(lk)) for lk in db.loc_keys)


def cross_maps(db):
    """name->loc and offset->loc views must agree with the per-location view"""
    ok = True
    for lk in db.loc_keys:
        for n in db.get_location_names(lk):
            ok = ok and db.get_name_location(n) == lk
        o = db.get_location_offset(lk)
        if o is not None:
            ok = ok and db.get_offset_location(o) == lk
    ok = ok and sorted(db.names) == sorted(n for lk in db.loc_keys for n in db.get_location_names(lk))
    ok = ok and sorted(db.offsets) == sorted(db.get_location_offset(lk) for lk in db.loc_keys
                                              if db.get_location_offset(lk) is not None)
    return ok


def do_step(db, m, op, li, ni, oi, log):
    """Apply one call to both; returns complaint string or None."""
    from miasm.core.locationdb import LocationDB
    from miasm.expression.expression import LocKey
    name = NAMES[ni] if ni < len(NAMES) else None
    off = OFFS[oi] if oi < len(OFFS) else None
    keys = sorted(m.locs)
    lk = LocKey(keys[li % len(keys)]) if keys else None
    before_db = snapshot(db)
    before_m = m.snapshot()
    exp = None
    ret = None
    if op in ('add_strict', 'add_loose'):
        log.append("add_location(name=%r, offset=%r, strict=%r)" % (name, off, op == 'add_strict'))
        exp = m.add(name, off, op == 'add_strict')
        call = lambda: db.add_location(name=name, offset=off, strict=(op == 'add_strict'))
    elif lk is None and op not in ('get_or_create_name', 'get_or_create_off', 'merge'):
        log.append("(no location yet: %s skipped)" % op)
        return None
    elif op == 'add_name':
        if name is None:
            return None
        log.append("add_location_name(%r, %r)" % (lk, name))
        nl = m.name_loc(name)
        if nl is not None and nl != lk.key:
            exp = ('rejected',)
        else:
            m.locs[lk.key][0].add(name)
            exp = ('ok', None)
        call = lambda: db.add_location_name(lk, name)
    elif op == 'rm_name':
        if name is None:
            return None
        log.append("remove_location_name(%r, %r)" % (lk, name))
        if m.name_loc(name) != lk.key:
            exp = ('rejected',)
        else:
            m.locs[lk.key][0].discard(name)
            exp = ('ok', None)
        call = lambda: db.remove_location_name(lk, name)
    elif op in ('set_off', 'set_off_force'):
        if off is None:
            return None
        force = op == 'set_off_force'
        log.append("set_location_offset(%r, %r, force=%r)" % (lk, off, force))
        ol = m.off_loc(off)
        cur = m.locs[lk.key][1]
        if ol is not None and ol != lk.key:
            exp = ('rejected',)
        elif cur is not None and cur != off and not force:
            exp = ('rejected',)
        else:
            m.locs[lk.key][1] = off
            exp = ('ok', None)
        call = lambda: db.set_location_offset(lk, off, force=force)
    elif op == 'unset_off':
        log.append("unset_location_offset(%r)" % (lk,))
        if m.locs[lk.key][1] is None:
            exp = ('rejected',)
        else:
            m.locs[lk.key][1] = None
            exp = ('ok', None)
        call = lambda: db.unset_location_offset(lk)
    elif op == 'rm_loc':
        log.append("remove_location(%r)" % (lk,))
        del m.locs[lk.key]
        exp = ('ok', None)
        call = lambda: db.remove_location(lk)
    elif op == 'get_or_create_name':
        if name is None:
            return None
        log.append("get_or_create_name_location(%r)" % name)
        nl = m.name_loc(name)
        exp = ('ok', nl if nl is not None else m.new(name, None))
        call = lambda: db.get_or_create_name_location(name)
    elif op == 'get_or_create_off':
        if off is None:
            return None
        log.append("get_or_create_offset_location(%r)" % off)
        ol = m.off_loc(off)
        exp = ('ok', ol if ol is not None else m.new(None, off))
        call = lambda: db.get_or_create_offset_location(off)
    elif op == 'merge':
        other = LocationDB()
        variant = (li + ni + oi) % 3
        if variant == 0:
            other.add_location(name='m0', offset=0x20)
        elif variant == 1:
            other.add_location(name='n1')
            other.add_location(offset=0x30)
        else:
            k = other.add_location(name='m0', offset=0x20)
            other.add_location_name(k, 'm1')
        log.append("merge(db%d)" % variant)
        conflict = any(m.name_loc(n) is not None for n in other.names) or any(m.off_loc(o) is not None for o in other.offsets)
        try:
            db.merge(other)
        except Exception as ex:
            if not conflict:
                return "merge of a non-conflicting database raised %s: %s" % (type(ex).__name__, ex)
            m.locs = {lk2.key: [set(db.get_location_names(lk2)), db.get_location_offset(lk2)] for lk2 in db.loc_keys}
            m.next = db._loc_key_num
            return None
        for flk in other.loc_keys:
            fo = other.get_location_offset(flk)
            for n in other.get_location_names(flk):
                if db.get_name_location(n) is None:
                    return "merge lost the name %r" % n
                if fo is not None and db.get_name_offset(n) != fo:
                    return "merge: name %r no longer at offset 0x%x" % (n, fo)
            if fo is not None and db.get_offset_location(fo) is None:
                return "merge lost the offset 0x%x" % fo
        # resynchronise the model from the real object (merge semantics checked above)
        m.locs = {lk2.key: [set(db.get_location_names(lk2)), db.get_location_offset(lk2)] for lk2 in db.loc_keys}
        m.next = db._loc_key_num
        return None
    try:
        ret = call()
        got = ('ok', ret)
    except (KeyError, ValueError) as ex:
        got = ('rejected',)
    if got[0] != exp[0]:
        return "%s: real object %s, model %s" % (log[-1], 'rejected the call' if got[0] == 'rejected' else 'accepted the call',
                                                 'rejects' if exp[0] == 'rejected' else 'accepts')
    if got[0] == 'rejected':
        if snapshot(db) != before_db:
            return "%s was rejected but changed the database from %r to %r" % (log[-1], before_db, snapshot(db))
        m.locs = {k: [set(ns), o] for k, ns, o in before_m}
        return None
    if exp[1] is not None:
        if ret is None or getattr(ret, 'key', None) != exp[1]:
            return "%s returned %r, expected the location %r" % (log[-1], ret, exp[1])
        if op in ('add_strict', 'add_loose'):
            if name is not None and name not in db.get_location_names(ret):
                return "%s returned %r which does not carry the name" % (log[-1], ret)
            if off is not None and db.get_location_offset(ret) != off:
                return "%s returned %r which does not carry the offset" % (log[-1], ret)
    if snapshot(db) != m.snapshot():
        return "after %s the database is %r, model %r" % (log[-1], snapshot(db), m.snapshot())
    return None


def post(db):
    try:
        db.consistency_check()
    except AssertionError:
        return "consistency_check() fails"
    if not cross_maps(db):
        return "name/offset lookup tables disagree with the per-location view"
    return None


def run_history(choices, bug=None):
    """choices: list of (op index, loc index, name index, offset index).  -> (complaint or None, log)"""
    from miasm.core.locationdb import LocationDB
    db = LocationDB()
    m = Model(bug)
    log = []
    for (oi_, li, ni, oi) in choices:
        bad = do_step(db, m, OPS[oi_], li, ni, oi, log)
        if bad is None:
            bad = post(db)
            if bad is not None:
                bad = "after %s: %s" % (log[-1] if log else '?', bad)
        if bad:
            return bad, log
    return None, log


def run_task(task):
    import z3
    import time
    from vf.symx import Engine
    res = common.new_result(task)
    eng = Engine(timeout_ms=10000, max_paths=300000)
    eng.deadline = time.time() + (170 if task['tier'] == 'quick' else 1700)
    eng.on_path_end = common.make_known_attributor(common.load_known(PROP), task['id'])
    K = task['K']
    nt = [0]

    def fn(eng):
        choices = [(task['first'][0], 0, task['first'][1], task['first'][2])]
        for k in range(1, K):
            op = builtins.int(eng.fresh_int('op%d' % k, 0, len(OPS) - 1))
            li = builtins.int(eng.fresh_int('loc%d' % k, 0, 2)) if OPS[op] not in ('add_strict', 'add_loose', 'get_or_create_name',
                                                                                  'get_or_create_off') else 0
            ni = builtins.int(eng.fresh_int('name%d' % k, 0, len(NAMES))) if OPS[op] in (
                'add_strict', 'add_loose', 'add_name', 'rm_name', 'get_or_create_name', 'merge') else len(NAMES)
            oi = builtins.int(eng.fresh_int('off%d' % k, 0, len(OFFS))) if OPS[op] in (
                'add_strict', 'add_loose', 'set_off', 'set_off_force', 'get_or_create_off') else len(OFFS)
            choices.append((op, li, ni, oi))
        try:
            bad, log = run_history(choices, task.get('bug'))
        except Exception as ex:
            import traceback
            eng.fail('no-exception', dict(exc="%s: %s" % (type(ex).__name__, ex), tb=traceback.format_exc()[-500:],
                                          choices=choices))
            return
        if any('merge' in l for l in log):
            nt[0] += 1
        eng.oblige('consistent-with-model', z3.BoolVal(bad is None), dict(choices=choices, log=log, complaint=bad))
    recs = eng.explore(fn)
    common.absorb_engine(res, eng, recs, task['id'])
    res['nontrivial'] = nt[0]
    res['samples'] = ["%s: %d histories of %d calls" % (task['id'], eng.stats['paths'], K)]
    return res


def replay(w):
    choices = [tuple(c) for c in w['choices']]
    try:
        bad, log = run_history(choices)
    except Exception as ex:
        return True, "history %r raised %s: %s" % (choices, type(ex).__name__, ex)
    if bad:
        return True, "%s  [history: %s]" % (bad, " ; ".join(log))
    return False, "history %s consistent" % " ; ".join(log)


if __name__ == '__main__':
    from vf.props import c28
    common.main(c28)
