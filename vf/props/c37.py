"""C37 -- see DESIGN.md §3.  Real transformation passes are run on generated and lifted IR graphs; original and transformed
graphs are compared by bounded symbolic execution (vf/irsym.py) with z3 deciding equality of memory writes, exit and
output registers for EVERY initial state of each explored path.
"""
from vf import common, irharness

PROP = 'C37'
LEVEL = 'translation_validation'
VARIANTS = ['ssa-unssa']

META = dict(
    functions=["miasm.analysis.ssa.SSADiGraph.transform (phi placement, renaming)", "miasm.analysis.outofssa.UnSSADiGraph", "miasm.analysis.data_flow.DiGraphLivenessSSA", "IRCFGSimplifierSSA.ircfg_to_ssa / do_propagate_expressions / do_del_dummy_phi / ssa_to_unssa (non-conventional SSA variant)", "miasm.core.graph dominators / dominance frontier"],
    stubs=[],
    bounds=dict(quick=dict(generated_programs="5 per skeleton x 14 skeletons", lifted_functions=12, max_blocks_per_path=40,
                           max_visits_per_block=8, query_timeout_s=15),
                thorough=dict(generated_programs="60 per skeleton x 14 skeletons", lifted_functions=12, max_blocks_per_path=40,
                              max_visits_per_block=8, query_timeout_s=60)),
    outside=["paths longer than 40 blocks or visiting a block more than 8 times (counted as cut paths in evidence)",
             "programs other than the generated/lifted ones (the quantifier over programs is an enumeration)",
             "calls are uninterpreted pure functions (a removed call whose results are dead is not observed)"],
    assumptions=["registers are compared at exit through the variable that stands for them (ssa_variable_to_expr); every generated program also dumps its registers to memory before returning"],
    rule="program = generated skeleton x statements or lifted x86_32 function; each explored path of the original graph is "
         "compared with the transformed graph for all initial states; non-trivial = program with at least 2 explored paths",
    explanation="Translation validation of SSA construction + out-of-SSA (directly, and after expression propagation as the SSA simplifier does): structural SSA validity is checked on the SSA graph; the out-of-SSA graph is proved to have the same final memory, exit and EAX/ESP as the original for all initial states on every explored path.",
    trusted_base=["z3 5.1", "vf/refsem.py", "vf/irsym.py (IR executor)", "vf/irprog.py (program supply, comparison)"],
)


def tasks(tier, seed):
    return irharness.make_tasks(irharness.programs(tier, seed), VARIANTS, tier)


def twins(tier):
    import random
    from vf import irprog
    p = irprog.gen_program(random.Random(5), 'diamond')
    return [dict(id='twin:changed-program', items=[('twin', 'gen', p, VARIANTS[0])], tier=tier, bug='compare-with-empty')]


def run_task(task):
    return irharness.run_task(task, PROP, META)


def replay(w):
    return irharness.replay(w, PROP)


if __name__ == '__main__':
    from vf.props import c37
    common.main(c37)
