"""C09 -- possible-values enumeration covers exactly the concrete value.

The real possible_values(e) is run on expression shapes with nested conditionals; every path constraint
becomes a z3 formula through refsem, and z3 decides over ALL identifier/memory valuations that (1) some
alternative has all its constraints satisfied and (2) every satisfied alternative evaluates to e's value.
"""
import itertools

from vf import common, trharness as T

PROP = 'C09'
LEVEL = 'other'
CHUNK = 10

META = dict(
    functions=["miasm.expression.expression_helper.possible_values", "ConstrainedValues / ConstrainedValue",
               "CondConstraintZero / CondConstraintNotZero"],
    stubs=[],
    bounds=dict(quick=dict(shapes="2-slot and 1-slot contexts x 8 conditional fillers (up to 3 nested ExprCond per slot), 3-slot contexts x 4 fillers, 8-bit values",
                           query_timeout_s=20),
                thorough=dict(shapes="quick + 3-slot contexts x all 9 fillers (2187) + nested one-slot contexts (441) + two-slot contexts of "
                                     "one-slot contexts (3200)", query_timeout_s=60)),
    outside=["more than 6 conditionals per expression", "widths other than 8 bits for values (conditions: 1 and 8 bits)"],
    assumptions=["memory: one little-endian byte space (refsem flat model)", "a constraint <X == 0>/<X != 0> means refsem(X) == 0 / != 0"],
    rule="shape = context(slot fillers) with nested ExprCond in operands, slices, compose parts, memory pointers, "
         "conditions and branches; non-trivial = shape with at least 2 alternatives",
    explanation="For each shape two families of validity queries over all valuations: disjunction of the alternatives' "
                "constraint sets is valid; each alternative's constraints imply value == original. Models are replayed "
                "concretely (independent evaluator) on unpatched code.",
)


def fillers():
    I, C = T.I, T.C
    A, B, Cc = I('A', 8), I('B', 8), I('C', 8)
    c1, c2, c3 = I('c1', 8), I('c2', 1), T.O('^', I('a', 8), I('b', 8))
    K = lambda c, x, y: "ExprCond(%s, %s, %s)" % (c, x, y)
    return [
        ('A', A),
        ('c1?A:B', K(c1, A, B)),
        ('c1?3:4', K(c1, C(3, 8), C(4, 8))),
        ('c2?A:B', K(c2, A, B)),
        ('c1?A:(c2?A:B)', K(c1, A, K(c2, A, B))),
        ('c1?(c2?1:2):(c3?3:1)', K(c1, K(c2, C(1, 8), C(2, 8)), K(c3, C(3, 8), C(1, 8)))),
        ('c1?(c1?A:B):C', K(c1, K(c1, A, B), Cc)),
        ('(c2?c1:A)?B:C', K(K(c2, c1, A), B, Cc)),
        ('c3?B:A', K(c3, B, A)),
    ]


def contexts(tier):
    I, C, O = T.I, T.C, T.O
    a = I('a', 8)
    one = [
        ('s', lambda s: s),
        ('s+a', lambda s: O('+', s, a)),
        ('s[2:6]', lambda s: "ExprSlice(%s, 2, 6)" % s),
        ('{s,a}', lambda s: "ExprCompose(%s, %s)" % (s, a)),
        ('@8[s]', lambda s: "ExprMem(%s, 8)" % s),
        ('-s', lambda s: O('-', s)),
        ('@16[{s,a}+1][4:12]', lambda s: "ExprSlice(ExprMem(%s, 16), 4, 12)" % O('+', "ExprCompose(%s, %s)" % (s, a), C(1, 16))),
    ]
    two = [
        ('s1+s2', lambda s, t: O('+', s, t)),
        ('s1^s2^a', lambda s, t: O('^', s, t, a)),
        ('{s1,s2}', lambda s, t: "ExprCompose(%s, %s)" % (s, t)),
        ('c?s1:s2', lambda s, t: "ExprCond(%s, %s, %s)" % (I('c4', 1), s, t)),
        ('s1?s2:a', lambda s, t: "ExprCond(%s, %s, %s)" % (s, t, a)),
        ('@8[s1]+s2', lambda s, t: O('+', "ExprMem(%s, 8)" % s, t)),
        ('(s1&s2)[2:6]', lambda s, t: "ExprSlice(%s, 2, 6)" % O('&', s, t)),
        ('s1==s2', lambda s, t: O('==', s, t)),
    ]
    three = [
        ('s1+s2+s3', lambda s, t, u: O('+', s, t, u)),
        ('{s1[0:4],s2,s3[4:8]}', lambda s, t, u: "ExprCompose(ExprSlice(%s, 0, 4), %s, ExprSlice(%s, 4, 8))" % (s, t, u)),
        ('s1?s2:s3', lambda s, t, u: "ExprCond(%s, %s, %s)" % (s, t, u)),
    ]
    return one, two, three


def all_shapes(tier):
    F = fillers()
    one, two, three = contexts(tier)
    out = []
    for cn, cf in one:
        for fn_, f in F:
            out.append(("%s | %s" % (cn, fn_), cf(f)))
    for cn, cf in two:
        for (n1, f1), (n2, f2) in itertools.product(F, F):
            out.append(("%s | %s | %s" % (cn, n1, n2), cf(f1, f2)))
    small = [F[1], F[2], F[4], F[6]] if tier == 'quick' else F
    for cn, cf in three:
        for (n1, f1), (n2, f2), (n3, f3) in itertools.product(small, small, small):
            out.append(("%s | %s | %s | %s" % (cn, n1, n2, n3), cf(f1, f2, f3)))
    if tier != 'quick':
        # one-slot contexts nested in one another, and two-slot contexts whose slots are one-slot contexts
        for (n1, c1), (n2, c2) in itertools.product(one, one):
            for fn_, f in F:
                out.append(("%s o %s | %s" % (n1, n2, fn_), c1(c2(f))))
        for cn, cf in two:
            for (n1, c1), (n2, c2) in itertools.product(one[:5], one[:5]):
                for (fa, f1), (fb, f2) in itertools.product(small[1:5], small[1:5]):
                    out.append(("%s | %s(%s) | %s(%s)" % (cn, n1, fa, n2, fb), cf(c1(f1), c2(f2))))
        # contexts change the width (slice, compose, memory): keep the well-typed combinations only
        good = []
        for sid, src in out:
            try:
                T.build(src)
            except Exception:
                continue
            good.append((sid, src))
        out = good
    return out


def tasks(tier, seed):
    sh = all_shapes(tier)
    b = META['bounds'][tier]
    return [dict(id='pv:%05d' % i, shapes=sh[i:i + CHUNK], tier=tier, timeout_s=b['query_timeout_s'])
            for i in range(0, len(sh), CHUNK)]


def twins(tier):
    sh = all_shapes('quick')
    pick = [s for s in sh if s[0] == 's1+s2 | c1?A:B | c2?A:B']
    return [dict(id='twin:drop-constraint', shapes=pick, tier=tier, timeout_s=10, bug='drop_constraint')]


def constraint_formula(ref, c):
    from miasm.expression.expression_helper import CondConstraintZero, CondConstraintNotZero
    t = ref.tr(c.expr)
    if isinstance(c, CondConstraintZero):
        return t == 0
    if isinstance(c, CondConstraintNotZero):
        return t != 0
    raise TypeError(c)


def run_task(task):
    import z3
    import time
    from vf.refsem import Ref
    from miasm.expression.expression_helper import possible_values
    res = common.new_result(task)
    known = [k for k in common.load_known(PROP) if k.get('status', 'known') == 'known']
    bug = task.get('bug')
    for sid, src in task['shapes']:
        e = T.build(src)
        t0 = time.time()
        try:
            pv = possible_values(e)
            alts = sorted(pv, key=lambda a: str(a))
        except Exception as ex:
            res['obligations'] += 1
            res['violations'].append(dict(site=sid, ob='no-exception', src=src, exc=repr(ex), inputs={}))
            continue
        if len(alts) >= 2:
            res['nontrivial'] += 1
        ref = Ref()
        te = ref.tr(e)
        conj = []
        for alt in alts:
            cs = [constraint_formula(ref, c) for c in alt.constraints]
            if bug == 'drop_constraint' and cs:
                cs = cs[1:]
            conj.append(z3.And(*cs) if cs else z3.BoolVal(True))

        def ask(name, formula, extra=None):
            res['obligations'] += 1
            s = z3.Solver()
            s.set('timeout', task['timeout_s'] * 1000)
            s.add(z3.Not(formula))
            r = s.check()
            res['queries'] += 1
            if r == z3.unsat:
                res['discharged'] += 1
            elif r == z3.unknown:
                res['inconclusive'].append(dict(site=sid, ob=name, why=s.reason_unknown()))
            else:
                m = s.model()
                ids = {k[0]: m.eval(v, model_completion=True).as_long() for k, v in ref.ids.items()}
                v = dict(site=sid, ob=name, src=src, inputs=ids, ids=ids)
                if extra:
                    v.update(extra)
                # memory bytes: replay uses a fixed pseudo-random memory unless given
                for k in known:
                    if common.site_matches(k, sid):
                        v['known'] = k['id']
                res['violations'].append(v)
        ask('some-alternative-satisfied', z3.Or(*conj) if conj else z3.BoolVal(False))
        for alt, c in zip(alts, conj):
            ask('satisfied-alternative-has-the-value', z3.Implies(c, ref.tr(alt.value) == te), dict(alt=str(alt)[:200]))
        res['solver_s'] += time.time() - t0
    res['paths'] = len(task['shapes'])
    if task['shapes']:
        res['samples'].append("%s -> %d alternatives" % (T.build(task['shapes'][0][1]),
                                                         len(possible_values(T.build(task['shapes'][0][1])))))
    return res


def replay(w):
    import random
    from vf.ceval import ceval
    from miasm.expression.expression_helper import possible_values, CondConstraintZero
    e = T.build(w['src'])
    try:
        pv = list(possible_values(e))
    except Exception as ex:
        return True, "possible_values(%s) raised %r" % (e, ex)
    names = set()

    def cb(x):
        if x.is_id():
            names.add((x.name, x.size))
        return x
    e.visit(cb)
    rnd = random.Random(1)
    trials = [w.get('ids', {})]
    for _ in range(4000):
        trials.append({nm: rnd.choice([0, 1, rnd.getrandbits(sz)]) for nm, sz in names})
    for ids in trials:
        full = {nm: ids.get(nm, 0) for nm, sz in names}
        for mseed in (0, 1):
            mem = (lambda a: 0) if mseed == 0 else (lambda a: (a * 2654435761 + 77) >> 3 & 0xff)
            want = ceval(e, full, mem)
            sat = []
            for alt in pv:
                ok = all((ceval(c.expr, full, mem) == 0) == isinstance(c, CondConstraintZero) for c in alt.constraints)
                if ok:
                    sat.append(alt)
            if not sat:
                return True, "%s under %r: no alternative has all constraints satisfied" % (e, full)
            for alt in sat:
                got = ceval(alt.value, full, mem)
                if got != want:
                    return True, "%s under %r: satisfied alternative %s evaluates to 0x%x, expression to 0x%x" % (
                        e, full, alt.value, got, want)
    return False, "%s: %d alternatives consistent on all probed valuations" % (e, len(pv))


if __name__ == '__main__':
    from vf.props import c09
    common.main(c09)
