"""C47 -- emulated OS helper functions return the documented results.

The real stub functions of miasm.os_dep.win_api_x86_32 (and linux_stdlib) run on a mock jitter whose call
arguments are SYMBOLIC 32-bit integers and whose memory holds symbolic bytes; z3 decides that the returned
EAX:EDX / memory equal the documented result (64-bit modular arithmetic, common-prefix length, C string
semantics) for all argument and byte values (lengths enumerated up to a small bound).
"""
import builtins

from vf import common

PROP = 'C47'
LEVEL = 'other'
M32 = (1 << 32) - 1

META = dict(
    functions=["miasm.os_dep.win_api_x86_32: ntdll_RtlLargeIntegerAdd / Subtract / ShiftRight, ntdll_RtlEnlargedUnsignedMultiply, "
               "ntdll_RtlExtendedIntegerMultiply, ntdll_RtlCompareMemory, ntdll_RtlMoveMemory, msvcrt_memcmp / memcpy / memset / "
               "strlen, kernel32_lstrlenA / lstrcpyA / lstrcatA / lstrcmpA / lstrcpyn", "miasm.os_dep.common.get_win_str_a / "
               "set_win_str_a / encode_win_str_a", "miasm.os_dep.linux_stdlib: xxx_strlen / xxx_strcpy / xxx_memcpy / xxx_memset / "
               "xxx_strcmp"],
    stubs=["MockJitter (vf/mockjit.py): func_args_*/func_ret_* return preset symbolic arguments and record the result; "
           "MockVM: byte map holding symbolic bytes (SymBytes)", "bytes.decode / str.encode for cp1252 / latin1 modelled on "
           "symbolic bytes by vf/symbytes.py (C codec boundary)"],
    bounds=dict(quick=dict(numeric_args="32-bit symbolic (multiplications: 32x32 with 60 s cap, else 8-bit operands)",
                           string_lengths="0..3", memory_lengths="0..3", query_timeout_s=20),
                thorough=dict(numeric_args="same", string_lengths="0..4", memory_lengths="0..4", query_timeout_s=120)),
    outside=["RtlComputeCrc32 (zlib, C)", "wide-character (UTF-16) variants", "format-string helpers", "strings longer than the bound",
             "RtlExtendedIntegerMultiply multiplier taken as unsigned 32 bits (as the stub does)"],
    assumptions=["pointer arguments are concrete mapped addresses; contents are symbolic", "memcmp/strcmp: only the sign of the "
                 "result is specified", "memcpy: source and destination do not overlap; RtlMoveMemory: any overlap"],
    rule="task = (helper, length configuration); path = one control-flow path of the stub; non-trivial = path reaching the result "
         "obligation",
    explanation="Bounded symbolic verification of the real stub functions on a mock jitter: arguments and memory bytes are solver "
                "variables; per path z3 proves result == documented semantics.",
)

NUMERIC = ['RtlLargeIntegerAdd', 'RtlLargeIntegerSubtract', 'RtlLargeIntegerShiftRight', 'RtlEnlargedUnsignedMultiply',
           'RtlExtendedIntegerMultiply']
MEMF = ['RtlCompareMemory', 'memcmp', 'memcpy', 'RtlMoveMemory', 'memset', 'xxx_memcpy', 'xxx_memset']
STRF = ['lstrlenA', 'strlen', 'lstrcpyA', 'lstrcatA', 'lstrcmpA', 'lstrcpyn', 'xxx_strlen', 'xxx_strcpy', 'xxx_strcmp']
A1, A2 = 0x1000, 0x2000


def tasks(tier, seed):
    ts = []
    for f in NUMERIC:
        ts.append(dict(fn=f, kind='num', variant='full'))
        if 'Multiply' in f:
            ts.append(dict(fn=f, kind='num', variant='small'))
    L = 3 if tier == 'quick' else 4
    for f in MEMF:
        ts.append(dict(fn=f, kind='mem', L=L))
    for f in STRF:
        ts.append(dict(fn=f, kind='str', L=L))
    for t in ts:
        t['tier'] = tier
        t['id'] = "%s:%s%s" % (t['kind'], t['fn'], ':' + t['variant'] if 'variant' in t else '')
    return ts


def twins(tier):
    return [dict(fn='RtlLargeIntegerAdd', kind='num', variant='full', tier=tier, id='twin:add-no-carry', bug='no_carry')]


def get_fn(name):
    if name.startswith('xxx_'):
        import miasm.os_dep.linux_stdlib as L
        return getattr(L, name)
    import miasm.os_dep.win_api_x86_32 as W
    for pre in ('ntdll_', 'msvcrt_', 'kernel32_'):
        if hasattr(W, pre + name):
            return getattr(W, pre + name)
    raise KeyError(name)


def zb(c):
    import z3
    from vf.symx import SymBool
    return c.z if isinstance(c, SymBool) else z3.BoolVal(bool(c))


def run_task(task):
    import z3
    import time
    from vf.symx import Engine, SymInt, lift
    from vf.refsem import bv_of_const
    from vf.mockjit import MockJitter, MockVM
    from vf.symbytes import SymBytes
    res = common.new_result(task)
    b = META['bounds'][task['tier']]
    eng = Engine(timeout_ms=b['query_timeout_s'] * 1000, max_paths=20000)
    eng.deadline = time.time() + (100 if task['tier'] == 'quick' else 1500)
    eng.on_path_end = common.make_known_attributor(common.load_known(PROP), task['id'])
    fn = get_fn(task['fn'])
    name = task['fn']
    bug = task.get('bug')

    def bv(x, w):
        return bv_of_const(lift(x), w)

    def ret_is(jit, lo_term, hi_term=None):
        v1, v2 = jit.ret
        cs = [zb(lift(v1) >= 0), zb(lift(v1) <= M32), bv(v1, 32) == lo_term]
        if hi_term is not None:
            cs += [zb(lift(v2) >= 0), zb(lift(v2) <= M32), bv(v2, 32) == hi_term]
        return z3.And(*cs)

    def numeric(eng):
        hi = M32 if task['variant'] == 'full' else 0xFF
        if name in ('RtlLargeIntegerAdd', 'RtlLargeIntegerSubtract'):
            a = [eng.fresh_int(n, 0, M32) for n in ('a_low', 'a_high', 'b_low', 'b_high')]
            jit = MockJitter(a)
            fn(jit)
            A = z3.Concat(bv(a[1], 32), bv(a[0], 32))
            B = z3.Concat(bv(a[3], 32), bv(a[2], 32))
            R = A + B if name.endswith('Add') else A - B
            if bug == 'no_carry':
                R = z3.Concat(bv(a[1], 32) + bv(a[3], 32), bv(a[0], 32) + bv(a[2], 32))
        elif name == 'RtlLargeIntegerShiftRight':
            a = [eng.fresh_int(n, 0, M32) for n in ('a_low', 'a_high')] + [eng.fresh_int('s_count', 0, 255)]
            jit = MockJitter(a)
            fn(jit)
            A = z3.Concat(bv(a[1], 32), bv(a[0], 32))
            R = z3.LShR(A, z3.ZeroExt(32, bv(a[2], 32)))
        elif name == 'RtlEnlargedUnsignedMultiply':
            a = [eng.fresh_int(n, 0, hi) for n in ('a', 'b')]
            jit = MockJitter(a)
            fn(jit)
            R = z3.ZeroExt(32, bv(a[0], 32)) * z3.ZeroExt(32, bv(a[1], 32))
        elif name == 'RtlExtendedIntegerMultiply':
            a = [eng.fresh_int('multiplicand_low', 0, hi), eng.fresh_int('multiplicand_high', 0, hi),
                 eng.fresh_int('multiplier', 0, hi)]
            jit = MockJitter(a)
            fn(jit)
            R = z3.Concat(bv(a[1], 32), bv(a[0], 32)) * z3.ZeroExt(32, bv(a[2], 32))
        eng.oblige('returns-to-caller', z3.BoolVal(jit.pc == 0x1337))
        eng.oblige('edx-eax', ret_is(jit, z3.Extract(31, 0, R), z3.Extract(63, 32, R)))

    def sym_region(eng, pre, n, terminate=None):
        items = [eng.fresh_int('%s%d' % (pre, i), 0, 255) for i in range(n)]
        if terminate is not None:
            items = items[:terminate] + [0] + items[terminate + 1:]
        return items

    def memory(eng):
        L = task['L']
        vm = MockVM()
        r1 = sym_region(eng, 'p', L + 2)
        r2 = sym_region(eng, 'q', L + 2)
        vm.map_bytes(A1, r1)
        vm.map_bytes(A2, r2)
        n = eng.fresh_int('n', 0, L)
        if name in ('RtlCompareMemory', 'memcmp'):
            jit = MockJitter([A1, A2, n], vm)
            fn(jit)
            k = builtins.int(n)
            neq = [bv(r1[i], 9) != bv(r2[i], 9) for i in range(k)]
            if name == 'RtlCompareMemory':
                # length of the common prefix
                want = z3.BitVecVal(k, 32)
                for i in reversed(range(k)):
                    want = z3.If(neq[i], z3.BitVecVal(i, 32), want)
                eng.oblige('common-prefix-length', ret_is(jit, want))
            else:
                sign = z3.BitVecVal(0, 2)
                for i in reversed(range(k)):
                    sign = z3.If(neq[i], z3.If(z3.ULT(bv(r1[i], 9), bv(r2[i], 9)), z3.BitVecVal(3, 2), z3.BitVecVal(1, 2)), sign)
                v = lift(jit.ret[0])
                got = z3.If(v.z == 0, z3.BitVecVal(0, 2), z3.If(v.z < 0, z3.BitVecVal(3, 2), z3.BitVecVal(1, 2)))
                eng.oblige('memcmp-sign', got == sign)
            return
        if name in ('memcpy', 'xxx_memcpy', 'RtlMoveMemory'):
            if name == 'RtlMoveMemory':
                d = eng.choose('dstoff', [A1, A1 + 1, A2])     # overlapping and disjoint
                src = A1 if d != A1 else A1 + 1
            else:
                d, src = A2, A1
            before = dict(vm.mem)
            jit = MockJitter([d, src, n], vm)
            fn(jit)
            k = builtins.int(n)
            cs = []
            for addr in sorted(before):
                if d <= addr < d + k:
                    cs.append(bv(vm.mem[addr], 9) == bv(before[src + (addr - d)], 9))
                else:
                    cs.append(bv(vm.mem[addr], 9) == bv(before[addr], 9))
            eng.oblige('copied-exactly', z3.And(*cs))
            if name != 'RtlMoveMemory':
                eng.oblige('returns-dst', ret_is(jit, z3.BitVecVal(d, 32)))
            return
        if name in ('memset', 'xxx_memset'):
            c = eng.fresh_int('c', 250, 260)       # around the unsigned-char boundary (the stub concretises it)
            before = dict(vm.mem)
            jit = MockJitter([A1, c, n], vm)
            fn(jit)
            k = builtins.int(n)
            cs = []
            for addr in sorted(before):
                if A1 <= addr < A1 + k:
                    cs.append(bv(vm.mem[addr], 9) == z3.ZeroExt(1, z3.Extract(7, 0, bv(c, 32))))
                else:
                    cs.append(bv(vm.mem[addr], 9) == bv(before[addr], 9))
            eng.oblige('filled-exactly', z3.And(*cs))
            eng.oblige('returns-addr', ret_is(jit, z3.BitVecVal(A1, 32)))
            return
        raise ValueError(name)

    def c_strlen(items):
        """(z3 length term, list of z3 'is terminator at i and none before')"""
        n = len(items)
        ln = z3.BitVecVal(n, 32)
        for i in reversed(range(n)):
            ln = z3.If(bv(items[i], 9) == 0, z3.BitVecVal(i, 32), ln)
        return ln

    def strings(eng):
        L = task['L']
        vm = MockVM()
        s1 = sym_region(eng, 's', L + 1, terminate=L)      # length 0..L
        s2 = sym_region(eng, 't', L + 1, terminate=L)
        tail = sym_region(eng, 'u', 2 * L + 2)
        vm.map_bytes(A1, s1 + tail)                          # destination has room
        vm.map_bytes(A2, s2)
        before = dict(vm.mem)
        if name in ('lstrlenA', 'strlen', 'xxx_strlen'):
            jit = MockJitter([A1], vm)
            fn(jit)
            eng.oblige('strlen', ret_is(jit, c_strlen(s1)))
            return
        if name in ('lstrcmpA', 'xxx_strcmp'):
            jit = MockJitter([A1, A2], vm)
            fn(jit)
            # C strcmp over unsigned bytes up to and including the terminator
            sign = z3.BitVecVal(0, 2)
            for i in reversed(range(L + 1)):
                x, y = bv(s1[i], 9), bv(s2[i], 9)
                here = z3.If(x == y, z3.If(x == 0, z3.BitVecVal(0, 2), sign),
                             z3.If(z3.ULT(x, y), z3.BitVecVal(3, 2), z3.BitVecVal(1, 2)))
                sign = here
            v = lift(jit.ret[0])
            got = z3.If(v.z == 0, z3.BitVecVal(0, 2), z3.If(v.z < 0, z3.BitVecVal(3, 2), z3.BitVecVal(1, 2)))
            plain = z3.And(*[z3.Or(z3.ULT(bv(c, 9), 0x80), z3.UGE(bv(c, 9), 0xA0)) for c in s1 + s2])
            eng.oblige('strcmp-sign', z3.Implies(plain, got == sign))
            eng.oblige('strcmp-sign-cp1252-range', z3.Implies(z3.Not(plain), got == sign))
            return
        if name in ('lstrcpyA', 'xxx_strcpy', 'lstrcatA', 'lstrcpyn'):
            if name == 'lstrcpyn':
                mlen = eng.fresh_int('mlen', 1, L + 2)
                jit = MockJitter([A1, A2, mlen], vm)
            else:
                jit = MockJitter([A1, A2], vm)
            fn(jit)
            # expected destination bytes, computed on this path from concrete lengths (forks on terminators)
            l2 = 0
            while not (s2[l2] == 0):
                l2 += 1
            if name == 'lstrcatA':
                l1 = 0
                while not (s1[l1] == 0):
                    l1 += 1
                start = l1
                payload = s2[:l2]
            elif name == 'lstrcpyn':
                k = builtins.int(mlen)
                start = 0
                payload = s2[:min(l2, k - 1)]
            else:
                start = 0
                payload = s2[:l2]
            expect = dict(before)
            for i, c in enumerate(payload + [0]):
                expect[A1 + start + i] = c
            eng.oblige('destination-bytes', z3.And(*[bv(vm.mem[a], 9) == bv(expect[a], 9) for a in sorted(before)]))
            eng.oblige('returns-dst', ret_is(jit, z3.BitVecVal(A1, 32)))
            return
        raise ValueError(name)

    body = dict(num=numeric, mem=memory, str=strings)[task['kind']]

    def safe(eng):
        try:
            return body(eng)
        except Exception as ex:
            import traceback
            eng.fail('no-exception', dict(exc="%s: %s" % (type(ex).__name__, ex), tb=traceback.format_exc()[-700:]))
    recs = eng.explore(safe)
    common.absorb_engine(res, eng, recs, task['id'])
    for v in res['violations']:
        v['task_desc'] = {k: task[k] for k in ('fn', 'kind', 'variant', 'L') if k in task}
    res['nontrivial'] = sum(1 for r in recs if r['status'] == 'ok' and r['obligations'])
    res['samples'] = ["%s: %d paths, %d obligations" % (task['id'], eng.stats['paths'], eng.stats['obligations'])]
    return res


def replay(w):
    """Concrete run of the real stub on the mock jitter (plain ints / bytes) against a Python reference."""
    from vf.mockjit import MockJitter, MockVM
    t = w['task_desc']
    inp = w['inputs']
    fn = get_fn(t['fn'])
    name = t['fn']

    def region(pre, n, terminate=None):
        items = [inp.get('%s%d' % (pre, i), 0) for i in range(n)]
        if terminate is not None:
            items[terminate] = 0
        return items

    def run(jit):
        try:
            fn(jit)
            return None
        except Exception as ex:
            return "%s: %s" % (type(ex).__name__, ex)
    if t['kind'] == 'num':
        if name in ('RtlLargeIntegerAdd', 'RtlLargeIntegerSubtract'):
            a = [inp[n] for n in ('a_low', 'a_high', 'b_low', 'b_high')]
            A, B = (a[1] << 32) | a[0], (a[3] << 32) | a[2]
            R = (A + B if name.endswith('Add') else A - B) % (1 << 64)
        elif name == 'RtlLargeIntegerShiftRight':
            a = [inp['a_low'], inp['a_high'], inp['s_count']]
            R = ((a[1] << 32) | a[0]) >> a[2]
        elif name == 'RtlEnlargedUnsignedMultiply':
            a = [inp['a'], inp['b']]
            R = a[0] * a[1]
        else:
            a = [inp['multiplicand_low'], inp['multiplicand_high'], inp['multiplier']]
            R = (((a[1] << 32) | a[0]) * a[2]) % (1 << 64)
        jit = MockJitter(a)
        err = run(jit)
        if err:
            return True, "%s%r raised %s" % (name, tuple(a), err)
        want = (R & M32, R >> 32)
        return tuple(jit.ret) != want, "%s%r returned EAX=%r EDX=%r, 64-bit result is EAX=0x%x EDX=0x%x" % (
            name, tuple(hex(x) for x in a), jit.ret[0], jit.ret[1], want[0], want[1])
    L = t['L']
    vm = MockVM()
    if t['kind'] == 'mem':
        r1, r2 = region('p', L + 2), region('q', L + 2)
        vm.map_bytes(A1, r1)
        vm.map_bytes(A2, r2)
        n = inp['n']
        before = dict(vm.mem)
        if name in ('RtlCompareMemory', 'memcmp'):
            jit = MockJitter([A1, A2, n], vm)
            err = run(jit)
            if err:
                return True, "%s(%r, %r, %d) raised %s" % (name, bytes(r1), bytes(r2), n, err)
            if name == 'RtlCompareMemory':
                k = 0
                while k < n and r1[k] == r2[k]:
                    k += 1
                return jit.ret[0] != k, "RtlCompareMemory(%r, %r, %d) returned %r, common prefix is %d" % (bytes(r1), bytes(r2), n, jit.ret[0], k)
            a, b2 = bytes(r1[:n]), bytes(r2[:n])
            want = (a > b2) - (a < b2)
            got = (jit.ret[0] > 0) - (jit.ret[0] < 0)
            return got != want, "memcmp(%r, %r, %d) returned %r" % (a, b2, n, jit.ret[0])
        if name in ('memcpy', 'xxx_memcpy', 'RtlMoveMemory'):
            if name == 'RtlMoveMemory':
                d = [A1, A1 + 1, A2][inp.get('dstoff', 0)]
                src = A1 if d != A1 else A1 + 1
            else:
                d, src = A2, A1
            jit = MockJitter([d, src, n], vm)
            err = run(jit)
            if err:
                return True, "%s raised %s" % (name, err)
            exp = dict(before)
            for i in range(n):
                exp[d + i] = before[src + i]
            return exp != vm.mem, "%s(dst=0x%x, src=0x%x, n=%d): memory %r expected %r" % (name, d, src, n, vm.mem, exp)
        c = inp['c']
        jit = MockJitter([A1, c, n], vm)
        err = run(jit)
        if err:
            return True, "%s(0x%x, c=0x%x, n=%d) raised %s" % (name, A1, c, n, err)
        exp = dict(before)
        for i in range(n):
            exp[A1 + i] = c & 0xff
        return exp != vm.mem or jit.ret[0] != A1, "%s(c=0x%x, n=%d): memory %r" % (name, c, n, vm.mem)
    # strings
    s1, s2, tail = region('s', L + 1, L), region('t', L + 1, L), region('u', 2 * L + 2)
    vm.map_bytes(A1, s1 + tail)
    vm.map_bytes(A2, s2)
    before = dict(vm.mem)
    c1 = bytes(s1[:s1.index(0)])
    c2 = bytes(s2[:s2.index(0)])
    if name in ('lstrlenA', 'strlen', 'xxx_strlen'):
        jit = MockJitter([A1], vm)
        err = run(jit)
        if err:
            return True, "%s(%r) raised %s" % (name, c1, err)
        return jit.ret[0] != len(c1), "%s(%r) returned %r" % (name, c1, jit.ret[0])
    if name in ('lstrcmpA', 'xxx_strcmp'):
        jit = MockJitter([A1, A2], vm)
        err = run(jit)
        if err:
            return True, "%s(%r, %r) raised %s" % (name, c1, c2, err)
        want = (c1 > c2) - (c1 < c2)
        got = (jit.ret[0] > 0) - (jit.ret[0] < 0)
        return got != want, "%s(%r, %r) returned %r, C strcmp sign is %d" % (name, c1, c2, jit.ret[0], want)
    args = [A1, A2] + ([inp['mlen']] if name == 'lstrcpyn' else [])
    jit = MockJitter(args, vm)
    err = run(jit)
    if err:
        return True, "%s(%r, %r%s) raised %s" % (name, c1, c2, ', %d' % inp['mlen'] if name == 'lstrcpyn' else '', err)
    if name == 'lstrcatA':
        start, payload = len(c1), c2
    elif name == 'lstrcpyn':
        start, payload = 0, c2[:inp['mlen'] - 1]
    else:
        start, payload = 0, c2
    exp = dict(before)
    for i, c in enumerate(payload + b"\x00"):
        exp[A1 + start + i] = c
    return exp != vm.mem or jit.ret[0] != A1, "%s(%r, %r): destination memory %r, expected %r" % (
        name, c1, c2, [vm.mem[a] for a in sorted(vm.mem) if a < A2], [exp[a] for a in sorted(exp) if a < A2])


if __name__ == '__main__':
    from vf.props import c47
    common.main(c47)
