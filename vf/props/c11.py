"""C11 -- expression pattern matching only reports genuine matches.

The real match_expr runs on (expression, pattern) pairs built from one typed grammar; every constant on both sides
is SYMBOLIC (independent solver variables), jokers replace sub-terms of the pattern (also the same joker twice, and
expressions that mention the joker's own identifier).  Whenever a match is returned, z3 decides for all constant
values on that path that substituting the bindings into the pattern gives the matched expression (same shape up to
the order of commutative arguments, equal constants) and, independently, the same value for all valuations.
"""
import random

from vf import common, adapt, simpharness

PROP = 'C11'
LEVEL = 'other'
CHUNK = 40

META = dict(
    functions=["miasm.expression.expression.match_expr", "test_set", "Expr.replace_expr / canonize (used by the oracle)"],
    stubs=adapt.STUBS,
    bounds=dict(quick=dict(base_width=8, pairs="all depth-1 trees + seed-chosen 1200 depth-2 trees, each with up to 6 derived "
                           "patterns (jokers at 1-2 positions, same joker twice, near-miss bounds/sizes/arity)", query_timeout_s=10),
                thorough=dict(base_width=8, pairs="all depth<=2 trees (23k) x derived patterns", query_timeout_s=30)),
    outside=["trees deeper than 2", "ExprAssign / ExprLoc patterns", "more than two distinct jokers"],
    assumptions=["'up to argument order of commutative operators' is decided on canonised forms (canonize also flattens nested "
                 "associative operators)"],
    rule="pair = (expression tree, pattern derived from a tree of the same grammar); constants symbolic on both sides; "
         "non-trivial = pair on which some path returns a match",
    explanation="Bounded symbolic verification: match_expr runs with symbolic constants (equality tests fork); for each path that "
                "returns bindings the solver proves pattern[bindings] == expression structurally and semantically.",
)

JOK = ['J0', 'J1']


def subtree_paths(spec, path=()):
    out = [path]
    for i, x in enumerate(spec):
        if isinstance(x, tuple) and x and isinstance(x[0], str) and x[0] in ('l', 'bin', 'un', 'cc', 'cond', 'mem', 'slice', 'ext',
                                                                           'compose'):
            out += subtree_paths(x, path + (i,))
    return out


def spec_size(spec, n):
    k = spec[0]
    if k == 'l':
        return spec[2]
    if k == 'bin':
        if spec[1] in ('==', '<u', '<s', '<=u', '<=s') or spec[1].startswith('FLAG'):
            return 1
        return spec_size(spec[2], n)
    if k == 'un':
        return 1 if spec[1] in ('parity', 'FLAG_EQ') else spec_size(spec[2], n)
    if k == 'cc':
        return 1
    if k == 'cond':
        return spec_size(spec[2], n)
    if k == 'mem':
        return spec[2]
    if k == 'slice':
        return spec[3] - spec[2]
    if k == 'ext':
        return spec[3]
    if k == 'compose':
        return sum(spec_size(s, n) for s in spec[1:])
    raise ValueError(spec)


def replace_at(spec, path, new):
    if not path:
        return new
    l = list(spec)
    l[path[0]] = replace_at(spec[path[0]], path[1:], new)
    return tuple(l)


def get_at(spec, path):
    for i in path:
        spec = spec[i]
    return spec


def derive_patterns(spec, n, rnd):
    """list of (tag, expression spec, pattern spec)"""
    out = []
    paths = [p for p in subtree_paths(spec) if p]
    paths_root = subtree_paths(spec)
    # jokers at one position
    for p in rnd.sample(paths_root, min(3, len(paths_root))):
        sz = spec_size(get_at(spec, p), n)
        out.append(('j1', spec, replace_at(spec, p, ('l', 'J0', sz))))
    # jokers at two positions: distinct and same joker
    if len(paths) >= 2:
        for _ in range(2):
            p1, p2 = rnd.sample(paths, 2)
            if p1[:len(p2)] == p2 or p2[:len(p1)] == p1:
                continue
            s1, s2 = spec_size(get_at(spec, p1), n), spec_size(get_at(spec, p2), n)
            out.append(('j2', spec, replace_at(replace_at(spec, p1, ('l', 'J0', s1)), p2, ('l', 'J1', s2))))
            if s1 == s2:
                out.append(('jj', spec, replace_at(replace_at(spec, p1, ('l', 'J0', s1)), p2, ('l', 'J0', s2))))
                # the expression mentions the joker's own identifier at one of the two places
                out.append(('jj-self', replace_at(spec, p1, ('l', 'J0', s1)),
                            replace_at(replace_at(spec, p1, ('l', 'J0', s1)), p2, ('l', 'J0', s2))))
    # identical pattern (constants independent: must match only when equal)
    out.append(('same', spec, spec))
    # near misses
    if spec[0] == 'slice':
        w = spec[3] - spec[2]
        for s0 in (0, 1, n // 2, n):
            if s0 != spec[2] and s0 + w <= spec_size(spec[1], n):
                out.append(('slice-bounds', spec, ('slice', ('l', 'J0', spec_size(spec[1], n)), s0, s0 + w)))
    if spec[0] == 'compose':
        out.append(('compose-arity', spec, ('compose',) + tuple(spec[1:-1]))) if len(spec) > 2 else None
        out.append(('compose-arity+', spec, ('compose',) + tuple(spec[1:]) + (('l', 'J1', n),)))
        out.append(('compose-arity-j', spec, ('compose', ('l', 'J0', spec_size(spec[1], n)))))
    if spec[0] == 'mem':
        out.append(('mem-size', spec, ('mem', ('l', 'J0', spec_size(spec[1], n)), 16 if spec[2] == 8 else 8)))
    if spec[0] == 'bin':
        out.append(('bin-swap', spec, ('bin', spec[1], spec[3], spec[2])))
        out.append(('bin-op', spec, ('bin', '^' if spec[1] != '^' else '+', spec[2], spec[3]))) if spec[1] in ('+', '^', '&', '|') else None
        out.append(('bin-jswap', spec, ('bin', spec[1], ('l', 'J0', spec_size(spec[3], n)), spec[2])))
    if spec[0] == 'cond':
        out.append(('cond-swap', spec, ('cond', spec[1], spec[3], spec[2])))
        out.append(('cond-jj', spec, ('cond', spec[1], ('l', 'J0', spec_size(spec[2], n)), ('l', 'J0', spec_size(spec[3], n)))))
    if spec[0] == 'ext':
        out.append(('ext-kind', spec, ('ext', 'signExt' if spec[1] == 'zeroExt' else 'zeroExt', spec[2], spec[3])))
    return [o for o in out if o is not None]


def all_pairs(tier, seed):
    n = META['bounds'][tier]['base_width']
    specs = simpharness.s2(n)
    rnd = random.Random(seed * 31 + 7)
    idxs = list(range(len(specs)))
    if tier == 'quick':
        def is_d1(s):
            return all(x[0] == 'l' for x in s[1:] if isinstance(x, tuple))
        d1 = [i for i in idxs if is_d1(specs[i])]
        rest = [i for i in idxs if i not in set(d1)]
        idxs = sorted(set(d1 + rnd.sample(rest, 1200)))
    pairs = []
    for i in idxs:
        for j, (tag, es, ps) in enumerate(derive_patterns(specs[i], n, rnd)):
            pairs.append(("%d:%s:%d" % (i, tag, j), es, ps))
    # constants of different widths at corresponding positions (only possible where miasm does not force equal operand
    # sizes: memory pointers, compose parts, the expression itself)
    c8, c16, J8, a8, A16 = ('l', 'c', n), ('l', 'c', 2 * n), ('l', 'J0', n), ('l', 'a', n), ('l', 'A', 2 * n)
    pairs += [
        ('width:int', c16, c8),
        ('width:mem-const', ('mem', c16, n), ('mem', c8, n)),
        ('width:mem-add', ('mem', ('bin', '+', A16, c16), n), ('mem', ('bin', '+', J8, c8), n)),
        ('width:compose', ('compose', c16, a8), ('compose', c8, ('l', 'J1', 2 * n))),
        ('width:mem-in-op', ('bin', '+', ('mem', c16, n), a8), ('bin', '+', ('mem', c8, n), J8)),
    ]
    return pairs


def tasks(tier, seed):
    pairs = all_pairs(tier, seed)
    return [dict(id='pairs:%06d' % i, pairs=pairs[i:i + CHUNK], tier=tier) for i in range(0, len(pairs), CHUNK)]


def twins(tier):
    n = 8
    return [dict(id='twin:ignore-bindings', tier=tier, bug='ignore_bindings',
                 pairs=[('twin', ('bin', '+', ('l', 'a', n), ('l', 'b', n)), ('bin', '+', ('l', 'J0', n), ('l', 'J1', n)))])]


def build(spec, n, cf):
    from vf import templates
    v = templates.V(n, cf)
    return templates.S2_build(spec, v)


def run_task(task):
    import z3
    import time
    adapt.install()
    from vf.symx import Engine
    from vf.refsem import Ref
    from miasm.expression.expression import match_expr, ExprId
    res = common.new_result(task)
    b = META['bounds'][task['tier']]
    n = b['base_width']
    known = common.load_known(PROP)
    for pid, es, ps in task['pairs']:
        eng = Engine(timeout_ms=b['query_timeout_s'] * 1000, max_paths=400)
        eng.deadline = time.time() + 30
        eng.on_path_end = common.make_known_attributor(known, pid)
        matched = [0]

        def fn(eng):
            adapt.reset()
            e = build(es, n, lambda i, size: eng.fresh_int('c%d_%d' % (i, size), 0, (1 << size) - 1))
            p = build(ps, n, lambda i, size: eng.fresh_int('k%d_%d' % (i, size), 0, (1 << size) - 1))
            jokers = [ExprId(j, s) for j in JOK for s in (1, n, 2 * n)]
            try:
                r = match_expr(e, p, jokers)
            except Exception as ex:
                eng.fail('no-exception', dict(exc="%s: %s" % (type(ex).__name__, ex)))
                return
            from vf.symx import SymBool
            if isinstance(r, SymBool):
                r = bool(r)                       # a comparison of symbolic constants returned as the verdict: decide it here
            if r is False:
                return
            matched[0] += 1
            if r is True:
                r = {}
            if task.get('bug') == 'ignore_bindings':
                r = {k: ExprId('zz', k.size) for k in r}
            try:
                q = p.replace_expr(r)
            except Exception as ex:
                eng.fail('substitutable', dict(exc="%s: %s" % (type(ex).__name__, ex), bindings=str(r)))
                return
            extra = dict(expr=str(e), pattern=str(p), bindings=str(r), substituted=str(q))
            if q.size != e.size:
                eng.fail('same-size', extra)
                return
            eng.oblige('substitution-gives-expression', adapt.structeq(q.canonize(), e.canonize()), extra)
            ref = Ref()
            eng.oblige('substitution-same-value', ref.tr(q) == ref.tr(e), extra)
        recs = eng.explore(fn)
        common.absorb_engine(res, eng, recs, pid)
        for v in res['violations']:
            if v['site'] == pid and 'es' not in v:
                v['es'], v['ps'] = es, ps
        if matched[0]:
            res['nontrivial'] += 1
    res['samples'].append("expr %s  pattern %s" % (task['pairs'][0][1], task['pairs'][0][2]))
    return res


def tup(x):
    return tuple(tup(i) for i in x) if isinstance(x, list) else x


def replay(w):
    from miasm.expression.expression import match_expr, ExprId
    inp = w['inputs']
    n = 8
    es, ps = tup(w['es']), tup(w['ps'])
    e = build(es, n, lambda i, size: inp.get('c%d_%d' % (i, size), 0))
    p = build(ps, n, lambda i, size: inp.get('k%d_%d' % (i, size), 0))
    jokers = [ExprId(j, s) for j in JOK for s in (1, n, 2 * n)]
    try:
        r = match_expr(e, p, jokers)
    except Exception as ex:
        return True, "match_expr(%s, %s) raised %r" % (e, p, ex)
    if r is False:
        return False, "no match"
    if r is True:
        r = {}
    q = p.replace_expr(r)
    ok = q.size == e.size and q.canonize() == e.canonize()
    return (not ok), "match_expr(%s, %s) = %s ; pattern with bindings gives %s%s" % (
        e, p, {str(k): str(v) for k, v in r.items()}, q, "" if ok else " which is not the matched expression")


if __name__ == '__main__':
    from vf.props import c11
    common.main(c11)
