"""C13 -- symbolic memory behaves as a little-endian byte store.

The real SymbolicExecutionEngine / SymbolMngr / MemSparse / MemArray are driven by bounded histories of writes,
deletions, state export/import and reads; written values and the original memory are SYMBOLIC, offsets are
enumerated (they are dictionary keys in the implementation).  After the history, for every probed read z3 decides
refsem(read result) == byte-wise model (last written byte, else original cell) for all values and memory contents.
"""
import itertools
import random

from vf import common

PROP = 'C13'
LEVEL = 'other'
CHUNK = 60
M32 = (1 << 32) - 1

META = dict(
    functions=["miasm.ir.symbexec.MemArray.read / write / memory / _get_variable_parts / _build_value_at_offset",
               "MemSparse.read / write / __delitem__ / delete_partial / iteritems", "SymbolMngr.read / write / __delitem__ / "
               "iteritems", "SymbolicExecutionEngine.apply_change / eval_updt_assignblk / eval_expr / get_state / set_state",
               "get_expr_base_offset", "expr_simp_explicit as used by the store"],
    stubs=["a 6-line mock lifter object supplying addrsize=32 / IRDst (no instruction lifting involved)"],
    bounds=dict(quick=dict(history="W1 W2 [delete] [export/import] then reads", sizes_bytes=[1, 2, 4, 8], offsets="anchor+0..5, anchors "
                           "0x10 and 2^32-2 (wrap-around)", bases=["integer", "B", "B+C"], value_kinds=["id", "int", "self", "other", "slice"],
                           histories="seed-chosen 4000 + 600 structured", query_timeout_s=10),
                thorough=dict(history="same", sizes_bytes=[1, 2, 4, 8], offsets="same", bases=["integer", "B", "B+C"],
                              value_kinds=["id", "int", "self", "other", "slice"], histories="seed-chosen 60000", query_timeout_s=30)),
    outside=["address sizes other than 32 bits", "more than 2 writes + 1 deletion per history", "non byte-aligned accesses "
             "(the engine asserts)"],
    assumptions=["memory cells built on different symbolic bases do not alias (documented engine assumption): added as "
                 "hypotheses address(base1+o1) != address(base2+o2) for every touched pair of different bases",
                 "stored expressions denote values over the INITIAL state (memory reads inside them read original memory)"],
    rule="history = enumerated offsets/sizes/kinds, symbolic values; non-trivial = history whose final reads overlap a write",
    explanation="Bounded symbolic verification over enumerated histories: values written and original memory are solver "
                "variables; each read result is proved equal to the byte-store model for all of them; export->import into a "
                "fresh engine and deletion are checked the same way.",
)


class MockLifter(object):
    addrsize = 32
    loc_db = None

    def __init__(self):
        from miasm.expression.expression import ExprId
        self.IRDst = ExprId('IRDst', 32)
        self.pc = ExprId('PC', 32)
        self.sp = ExprId('SP', 32)


def gen_histories(tier, seed):
    rnd = random.Random(seed)
    sizes = [1, 2, 4, 8]
    kinds = ['id', 'int', 'self', 'other', 'slice']
    out = []
    # structured: all W1 x W2 offset/size pairs for one base and kind id/self
    for base in ('INT', 'B', 'B+C'):
        for anchor in (0x10, M32 - 1):
            combos = list(itertools.product(range(0, 6), sizes, range(0, 6), sizes))
            pick = rnd.sample(combos, 50)
            for (d1, s1, d2, s2) in pick:
                out.append(dict(base=base, anchor=anchor, ops=[('W', d1, s1, 'id', 'raw'), ('W', d2, s2, 'self', 'raw')],
                                export=True))
                out.append(dict(base=base, anchor=anchor, ops=[('W', d1, s1, 'other', 'eval'), ('W', d2, s2, 'id', 'eval')],
                                export=True))
    n = 4000 if tier == 'quick' else 60000
    for _ in range(n):
        base = rnd.choice(['INT', 'B', 'B+C'])
        anchor = rnd.choice([0x10, M32 - 1, M32 - 4])
        ops = []
        for k in range(rnd.choice([1, 2, 2, 2, 3])):
            ops.append(('W', rnd.randrange(0, 6), rnd.choice(sizes), rnd.choice(kinds), rnd.choice(['raw', 'eval'])))
        if rnd.random() < 0.35:
            ops.append(('D', rnd.randrange(0, 6), rnd.choice(sizes), rnd.choice(['full', 'partial']), ''))
            if rnd.random() < 0.5:
                ops.append(('W', rnd.randrange(0, 6), rnd.choice(sizes), rnd.choice(kinds), 'raw'))
        h = dict(base=base, anchor=anchor, ops=ops, export=rnd.random() < 0.6)
        if rnd.random() < 0.2:
            h['other_base_write'] = (rnd.randrange(0, 6), rnd.choice(sizes))
        out.append(h)
    return out


def tasks(tier, seed):
    hs = gen_histories(tier, seed)
    return [dict(id='hist:%06d' % i, hists=hs[i:i + CHUNK], tier=tier) for i in range(0, len(hs), CHUNK)]


def twins(tier):
    return [dict(id='twin:big-endian-model', tier=tier, bug='big_endian',
                 hists=[dict(base='B', anchor=0x10, ops=[('W', 0, 4, 'id', 'raw')], export=False)])]


def base_expr(kind):
    from miasm.expression.expression import ExprId, ExprInt
    if kind == 'INT':
        return None
    if kind == 'B':
        return ExprId('B', 32)
    if kind == 'B+C':
        return ExprId('B', 32) + ExprId('C', 32)
    if kind == 'D':
        return ExprId('D', 32)
    raise ValueError(kind)


def ptr_expr(kind, off):
    from miasm.expression.expression import ExprInt
    from miasm.expression.simplifications import expr_simp_explicit
    off &= M32
    b = base_expr(kind)
    if b is None:
        return ExprInt(off, 32)
    return expr_simp_explicit(b + ExprInt(off, 32))


def run_history(h, timeout_s, bug=None):
    """Returns (n_obligations, n_discharged, violations, inconclusive, nontrivial)."""
    import z3
    from miasm.expression.expression import ExprId, ExprInt, ExprMem, ExprSlice
    from miasm.ir.symbexec import SymbolicExecutionEngine
    from miasm.ir.ir import AssignBlock
    from vf.refsem import Ref
    lifter = MockLifter()
    eng = SymbolicExecutionEngine(lifter)
    ref = Ref()
    kind, anchor = h['base'], h['anchor']
    model = {}          # (basekind, offset) -> z3 8-bit term
    touched = set()

    def addr(bk, off):
        return ref.tr(ptr_expr(bk, off))

    def orig(bk, off):
        return ref.mem(z3.ZeroExt(32, addr(bk, off)))

    def model_read(bk, off, nbytes):
        bs = []
        for i in range(nbytes):
            o = (off + i) & M32
            touched.add((bk, o))
            bs.append(model.get((bk, o), orig(bk, o)))
        if bug == 'big_endian':
            bs = bs[::-1]
        r = bs[0]
        for x in bs[1:]:
            r = z3.Concat(x, r)
        return r
    vcount = [0]
    log = []
    for op in h['ops']:
        if op[0] == 'W':
            _, d, s, vk, mode = op
            off = (anchor + d) & M32
            dst = ExprMem(ptr_expr(kind, off), 8 * s)
            vcount[0] += 1
            if vk == 'id':
                src = ExprId('V%d' % vcount[0], 8 * s)
            elif vk == 'int':
                src = ExprInt(0x1122334455667788 >> (8 * (8 - s)), 8 * s)
            elif vk == 'self':
                src = ExprMem(ptr_expr(kind, off), 8 * s)
            elif vk == 'other':
                src = ExprMem(ptr_expr(kind, (off + 2) & M32), 8 * s)
            else:  # slice of a wider load at the same base
                src = ExprSlice(ExprMem(ptr_expr(kind, (anchor + 1) & M32), 64), 8, 8 + 8 * s) if s < 8 else \
                    ExprMem(ptr_expr(kind, (anchor + 1) & M32), 64)
            if mode == 'eval':
                # the source is evaluated in the current state, then stored
                want = model_read_expr(src, kind, model_read, ref)
                eng.eval_updt_assignblk(AssignBlock({dst: src}))
            else:
                want = ref.tr(src)     # meaning over the initial state
                eng.apply_change(dst, src)
            for i in range(s):
                o = (off + i) & M32
                model[(kind, o)] = z3.Extract(8 * i + 7, 8 * i, want)
                touched.add((kind, o))
            log.append("%s @%d[%s] = %s" % (mode, 8 * s, dst.ptr, src))
        elif op[0] == 'D':
            _, d, s, how, _ = op
            off = (anchor + d) & M32
            tgt = ExprMem(ptr_expr(kind, off), 8 * s)
            if how == 'full':
                try:
                    del eng.symbols[tgt]
                    deleted = True
                except KeyError:
                    deleted = False       # not fully present: rejected, state must be unchanged
            else:
                try:
                    eng.symbols.symbols_mem.delete_partial(tgt)
                    deleted = True
                except KeyError:
                    deleted = False
            if deleted:
                for i in range(s):
                    model.pop((kind, (off + i) & M32), None)
            log.append("delete-%s %s -> %s" % (how, tgt, deleted))
    if 'other_base_write' in h:
        d, s = h['other_base_write']
        dst = ExprMem(ptr_expr('D', (anchor + d) & M32), 8 * s)
        src = ExprId('W', 8 * s)
        eng.apply_change(dst, src)
        for i in range(s):
            model[('D', (anchor + d + i) & M32)] = z3.Extract(8 * i + 7, 8 * i, ref.tr(src))
            touched.add(('D', (anchor + d + i) & M32))
        log.append("raw @%d[%s] = W" % (8 * s, dst.ptr))
    engines = [('live', eng)]
    if h.get('export'):
        fresh = SymbolicExecutionEngine(MockLifter())
        fresh.set_state(eng.get_state())
        engines.append(('imported', fresh))
    # probes: every size at every window offset (-1..7)
    probes = []
    for d in (-1, 0, 1, 2, 3, 5, 7):
        for s in (1, 2, 4, 8):
            probes.append((kind, (anchor + d) & M32, s))
    if 'other_base_write' in h:
        probes.append(('D', anchor & M32, 8))
    results = []
    for (bk, off, s) in probes:
        want = model_read(bk, off, s)
        for name, e in engines:
            got = e.eval_expr(ExprMem(ptr_expr(bk, off), 8 * s))
            results.append((name, bk, off, s, got, want))
    # non-aliasing hypotheses between different bases
    hyp = []
    tl = sorted(touched)
    for (b1, o1), (b2, o2) in itertools.combinations(tl, 2):
        if b1 != b2:
            hyp.append(addr(b1, o1) != addr(b2, o2))
    nob = ndis = 0
    viol, inc = [], []
    nontrivial = any((bk, (off + i) & M32) in model for (_, bk, off, s, _, _) in results for i in range(s))
    s = z3.Solver()
    s.set('timeout', timeout_s * 1000)
    if hyp:
        s.add(*hyp)
    for (name, bk, off, sz, got, want) in results:
        nob += 1
        s.push()
        s.add(ref.tr(got) != want)
        r = s.check()
        if r == z3.unsat:
            ndis += 1
        elif r == z3.unknown:
            inc.append("read @%d[%s+0x%x] (%s)" % (8 * sz, bk, off, name))
        else:
            m = s.model()
            ids = {k[0]: m.eval(v, model_completion=True).as_long() for k, v in ref.ids.items()}
            membytes = {}
            for (b_, o_) in sorted(touched):
                for dd in range(-1, 10):
                    a_ = m.eval(addr(b_, (o_ + dd) & M32), model_completion=True).as_long()
                    membytes[str(a_)] = m.eval(ref.mem(z3.BitVecVal(a_, 64)), model_completion=True).as_long()
            viol.append(dict(ob='read-%s' % name, read="@%d[%s]" % (8 * sz, ptr_expr(bk, off)), got=str(got), hist=h, log=log,
                             probe=[name, bk, off, sz], want_val=m.eval(want, model_completion=True).as_long(),
                             inputs=ids, ids=ids, membytes=membytes))
        s.pop()
        if viol:
            break
    return nob, ndis, viol, inc, nontrivial


def model_read_expr(src, kind, model_read, ref):
    """Model value of a source expression evaluated in the CURRENT state (memory reads see earlier writes)."""
    import z3
    from vf.props.c13 import base_offset_of
    if src.is_mem():
        bk, off = base_offset_of(src.ptr)
        return model_read(bk, off, src.size // 8)
    if src.is_slice():
        return z3.Extract(src.stop - 1, src.start, model_read_expr(src.arg, kind, model_read, ref))
    return ref.tr(src)


def base_offset_of(ptr):
    from miasm.ir.symbexec import get_expr_base_offset
    b, off = get_expr_base_offset(ptr)
    if b.is_id('__INTERNAL_INTBASE__'):
        return 'INT', off
    if b.is_id('B'):
        return 'B', off
    if b.is_id('D'):
        return 'D', off
    return 'B+C', off


def run_task(task):
    import time
    res = common.new_result(task)
    known = [k for k in common.load_known(PROP) if k.get('status', 'known') == 'known']
    tmo = META['bounds'][task['tier']]['query_timeout_s']
    t0 = time.time()
    for i, h in enumerate(task['hists']):
        site = "%s:%d" % (task['id'], i)
        try:
            nob, ndis, viol, inc, nt = run_history(h, tmo, task.get('bug'))
        except Exception as ex:
            import traceback
            res['obligations'] += 1
            res['violations'].append(dict(site=site, ob='no-exception', hist=h, exc="%s: %s" % (type(ex).__name__, ex),
                                          tb=traceback.format_exc()[-600:], inputs={}))
            continue
        res['obligations'] += nob
        res['discharged'] += ndis
        res['queries'] += nob
        res['nontrivial'] += 1 if nt else 0
        for v in viol:
            v['site'] = site
            res['violations'].append(v)
        for x in inc:
            res['inconclusive'].append(dict(site=site, why=x))
    res['solver_s'] = time.time() - t0
    res['paths'] = len(task['hists'])
    res['samples'].append(task['hists'][0])
    return res


def replay(w):
    """Re-run the history on unpatched miasm with concrete values and compare byte by byte."""
    import random
    from miasm.expression.expression import ExprId, ExprInt, ExprMem
    from vf.ceval import ceval
    h = w['hist']
    if w.get('ob') == 'no-exception':
        try:
            run_history(h, 10)
        except Exception as ex:
            return True, "history %r raised %r" % (h, ex)
        return False, "no exception"
    # concrete replay: redo the history on the real engine, read, and evaluate the returned expression under the
    # model's identifier values and original memory with the independent evaluator
    got = concrete_read(h, w['probe'])
    ids = dict(w.get('ids', {}))
    mem = {int(k): v for k, v in w.get('membytes', {}).items()}
    names = set()

    def cb(x):
        if x.is_id():
            names.add(x.name)
        return x
    got.visit(cb)
    full = {n: ids.get(n, 0) for n in names}
    val = ceval(got, full, lambda a: mem.get(a, 0))
    return val != w['want_val'], "history %s ; read %s (%s engine) returned %s = 0x%x, byte store holds 0x%x (ids %r)" % (
        " ; ".join(w.get('log', [])), w.get('read'), w['probe'][0], got, val, w['want_val'], ids)


def concrete_read(h, probe):
    from miasm.expression.expression import ExprId, ExprInt, ExprMem, ExprSlice
    from miasm.ir.symbexec import SymbolicExecutionEngine
    from miasm.ir.ir import AssignBlock
    eng = SymbolicExecutionEngine(MockLifter())
    kind, anchor = h['base'], h['anchor']
    vcount = 0
    for op in h['ops']:
        if op[0] == 'W':
            _, d, s, vk, mode = op
            off = (anchor + d) & M32
            dst = ExprMem(ptr_expr(kind, off), 8 * s)
            vcount += 1
            if vk == 'id':
                src = ExprId('V%d' % vcount, 8 * s)
            elif vk == 'int':
                src = ExprInt(0x1122334455667788 >> (8 * (8 - s)), 8 * s)
            elif vk == 'self':
                src = ExprMem(ptr_expr(kind, off), 8 * s)
            elif vk == 'other':
                src = ExprMem(ptr_expr(kind, (off + 2) & M32), 8 * s)
            else:
                src = ExprSlice(ExprMem(ptr_expr(kind, (anchor + 1) & M32), 64), 8, 8 + 8 * s) if s < 8 else \
                    ExprMem(ptr_expr(kind, (anchor + 1) & M32), 64)
            if mode == 'eval':
                eng.eval_updt_assignblk(AssignBlock({dst: src}))
            else:
                eng.apply_change(dst, src)
        else:
            _, d, s, how, _ = op
            tgt = ExprMem(ptr_expr(kind, (anchor + d) & M32), 8 * s)
            try:
                if how == 'full':
                    del eng.symbols[tgt]
                else:
                    eng.symbols.symbols_mem.delete_partial(tgt)
            except KeyError:
                pass
    if 'other_base_write' in h:
        d, s = h['other_base_write']
        eng.apply_change(ExprMem(ptr_expr('D', (anchor + d) & M32), 8 * s), ExprId('W', 8 * s))
    name, bk, off, sz = probe
    if name == 'imported':
        fresh = SymbolicExecutionEngine(MockLifter())
        fresh.set_state(eng.get_state())
        eng = fresh
    return eng.eval_expr(ExprMem(ptr_expr(bk, off), 8 * sz))


if __name__ == '__main__':
    from vf.props import c13
    common.main(c13)
