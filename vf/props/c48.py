"""C48 -- emulated allocators return fresh, non-overlapping mappings.

heap.alloc / kernel32_HeapAlloc / kernel32_VirtualAlloc / LinuxEnvironment.mmap / brk run on a mock VM (page
bookkeeping with the C manager's overlap test) with SYMBOLIC request sizes; z3 decides after every request that
the returned region is fully mapped, overlaps no other live allocation and has an address distinct from every
other live allocation (zero sizes included), for all sizes within the bound.
"""
import builtins
import itertools

from vf import common

PROP = 'C48'
LEVEL = 'other'
MAXSZ = 1 << 24

META = dict(
    functions=["miasm.os_dep.common.heap.next_addr / alloc / vm_alloc", "miasm.os_dep.win_api_x86_32.kernel32_HeapAlloc / "
               "kernel32_VirtualAlloc", "miasm.os_dep.linux.environment.LinuxEnvironment.mmap / brk", "miasm.core.interval (as used "
               "by mmap / brk)"],
    stubs=["MockVM (vf/mockjit.py): page list with the overlap test of the C manager (is_mpn_in_tab) -- assumption: the C "
           "overlap test is right (C24 is not claimed)", "b\"\\x00\" * <symbolic size> yields a lazy buffer of symbolic length "
           "(SymInt.__rmul__), so the size is not concretised", "MockJitter calling-convention glue"],
    bounds=dict(quick=dict(requests_per_history=3, size_range=[0, MAXSZ], hints="0 / base of a live mapping / inside a live "
                           "mapping / free address (enumerated)", query_timeout_s=15),
                thorough=dict(requests_per_history=4, size_range=[0, MAXSZ], hints="same", query_timeout_s=60)),
    outside=["requests larger than 2^24 bytes / address-space exhaustion (wrap past 2^32)", "file-backed mmap", "free / munmap "
             "(the stubs do not release memory)", "the real C memory manager"],
    assumptions=["mmap lengths and brk increments are > 0 (a zero-length mmap is rejected by the real syscall)", "VirtualAlloc with lpAddress equal to the base of a live mapping re-protects that mapping (same allocation, "
                 "not a new one)", "mmap with MAP_FIXED replaces what it covers (no disjointness obligation, still fully mapped)"],
    rule="task = allocator scenario (sequence of 3-4 requests, enumerated hints); sizes symbolic; path = one region of the "
         "sizes; non-trivial = path with at least two live allocations",
    explanation="Bounded symbolic verification: request sizes are solver variables while the real allocator stubs run on a mock "
                "VM; per path z3 proves mapped-ness (for a symbolic probe address), pairwise disjointness and distinct addresses.",
)

SCENARIOS = ['heap3', 'heapalloc-api', 'virtualalloc', 'mmap', 'mmap-fixed', 'brk', 'mixed']


def tasks(tier, seed):
    ts = [dict(sc=s, tier=tier, id='alloc:%s' % s) for s in SCENARIOS]
    return ts


def twins(tier):
    return [dict(sc='heap3', tier=tier, id='twin:require-gap', bug='require_gap')]


def run_task(task):
    import z3
    import time
    from vf import symx
    from vf.symx import Engine, lift
    from vf.refsem import bv_of_const
    from vf.mockjit import MockJitter, MockVM, LazyRepeat, PageDict
    import miasm.os_dep.win_api_x86_32 as W
    import miasm.os_dep.common as C
    res = common.new_result(task)
    b = META['bounds'][task['tier']]
    eng = Engine(timeout_ms=b['query_timeout_s'] * 1000, max_paths=20000)
    eng.deadline = time.time() + (100 if task['tier'] == 'quick' else 1500)
    eng.on_path_end = common.make_known_attributor(common.load_known(PROP), task['id'])
    symx._seq_repeat_hook[0] = lambda seq, n: LazyRepeat(seq, n)
    K = b['requests_per_history']
    bug = task.get('bug')
    sc = task['sc']
    WD = 40

    def bv(x):
        return bv_of_const(lift(x), WD)

    def mapped(vm, addr, size):
        """forall p in [addr, addr+size): p inside some page"""
        p = z3.BitVec('probe', WD)
        inside = z3.Or(*[z3.And(z3.ULE(bv(a), p), z3.ULT(p, bv(a) + bv(i['size']))) for a, i in vm.pages.items()]) \
            if vm.pages else z3.BoolVal(False)
        return z3.Implies(z3.And(z3.ULE(bv(addr), p), z3.ULT(p, bv(addr) + bv(size))), inside)

    def disjoint(r1, r2):
        (a1, s1), (a2, s2) = r1, r2
        d = z3.Or(z3.ULE(bv(a1) + bv(s1), bv(a2)), z3.ULE(bv(a2) + bv(s2), bv(a1)))
        if bug == 'require_gap':
            d = z3.Or(z3.ULT(bv(a1) + bv(s1) + 0x100000, bv(a2)), z3.ULT(bv(a2) + bv(s2) + 0x100000, bv(a1)))
        return d

    def check_all(eng, vm, live, tag):
        """live: list of (addr, size, kind) of distinct live allocations"""
        a, s, _ = live[-1]
        eng.oblige('%s-mapped' % tag, mapped(vm, a, s))
        for (a2, s2, k2) in live[:-1]:
            eng.oblige('%s-distinct-address' % tag, bv(a) != bv(a2))
            eng.oblige('%s-no-overlap' % tag, disjoint((a, s), (a2, s2)))

    def fn(eng):
        vm = MockVM()
        W.winobjs.heap = C.heap()
        W.winobjs.allocated_pages = PageDict()
        live = []
        sizes = [eng.fresh_int('size%d' % i, 0, MAXSZ) for i in range(K + 1)]
        if sc == 'heap3':
            h = C.heap()
            for i in range(K):
                a = h.vm_alloc(vm, sizes[i])
                live.append((a, sizes[i], 'heap'))
                check_all(eng, vm, live, 'heap%d' % i)
            return
        if sc == 'heapalloc-api':
            for i in range(K):
                jit = MockJitter([0x1, 0, sizes[i]], vm)
                W.kernel32_HeapAlloc(jit)
                live.append((jit.ret[0], sizes[i], 'HeapAlloc'))
                check_all(eng, vm, live, 'HeapAlloc%d' % i)
            return
        if sc == 'virtualalloc':
            jit = MockJitter([0, sizes[0], 0x3000, 0x4], vm)
            W.kernel32_VirtualAlloc(jit)
            a0 = jit.ret[0]
            live.append((a0, sizes[0], 'VirtualAlloc'))
            check_all(eng, vm, live, 'va0')
            hint = eng.choose('hint', ['null', 'base', 'inside', 'free'])
            if hint == 'inside':
                eng.assume(sizes[0] > 0x1800)
            lp = {'null': 0, 'base': a0, 'inside': a0 + 0x1800, 'free': 0x50000000}[hint]
            jit = MockJitter([lp, sizes[1], 0x3000, 0x40], vm)
            W.kernel32_VirtualAlloc(jit)
            a1 = jit.ret[0]
            if hint == 'base':
                eng.oblige('va-reprotect-returns-base', bv(a1) == bv(a0))
            else:
                live.append((a1, sizes[1], 'VirtualAlloc'))
                check_all(eng, vm, live, 'va1')
            jit = MockJitter([0x1, 0, sizes[2]], vm)
            W.kernel32_HeapAlloc(jit)
            live.append((jit.ret[0], sizes[2], 'HeapAlloc'))
            check_all(eng, vm, live, 'va2')
            return
        from miasm.os_dep.linux.environment import LinuxEnvironment_x86_32
        env = LinuxEnvironment_x86_32.__new__(LinuxEnvironment_x86_32)
        env.brk_current = LinuxEnvironment_x86_32.brk_current
        env.mmap_current = LinuxEnvironment_x86_32.mmap_current
        ANON = 0x22
        if sc in ('mmap', 'mmap-fixed', 'mixed'):
            for z in sizes:
                eng.assume(z > 0)        # mmap / brk growth of length 0 is not a request (EINVAL / no-op)
        if sc in ('mmap', 'mmap-fixed'):
            a0 = env.mmap(0, sizes[0], 3, ANON, 0xffffffff, 0, vm)
            live.append((a0, sizes[0], 'mmap'))
            check_all(eng, vm, live, 'mmap0')
            if sc == 'mmap':
                hint = eng.choose('hint', ['null', 'base', 'inside', 'free', 'below'])
                if hint == 'inside':
                    eng.assume(sizes[0] > 0x10)
                h = {'null': 0, 'base': a0, 'inside': a0 + 0x10, 'free': 0x60000000, 'below': 0x10000}[hint]
                a1 = env.mmap(h, sizes[1], 3, ANON, 0xffffffff, 0, vm)
                live.append((a1, sizes[1], 'mmap'))
                check_all(eng, vm, live, 'mmap1')
                a2 = env.mmap(0, sizes[2], 3, ANON, 0xffffffff, 0, vm)
                live.append((a2, sizes[2], 'mmap'))
                check_all(eng, vm, live, 'mmap2')
            else:
                where = eng.choose('where', ['base', 'straddle', 'free'])
                if where == 'straddle':
                    eng.assume(sizes[0] > 0x800)
                h = {'base': a0, 'straddle': a0 + 0x800, 'free': 0x60000000}[where]
                eng.assume(sizes[1] > 0)
                a1 = env.mmap(h, sizes[1], 3, ANON | 0x10, 0xffffffff, 0, vm)
                eng.oblige('fixed-returns-address', bv(a1) == bv(h))
                eng.oblige('fixed-mapped', mapped(vm, a1, sizes[1]))
                a2 = env.mmap(0, sizes[2], 3, ANON, 0xffffffff, 0, vm)
                eng.oblige('after-fixed-mapped', mapped(vm, a2, sizes[2]))
                eng.oblige('after-fixed-distinct', z3.And(bv(a2) != bv(a0), bv(a2) != bv(a1)))
                eng.oblige('after-fixed-no-overlap', z3.And(disjoint((a2, sizes[2]), (a0, sizes[0])),
                                                           disjoint((a2, sizes[2]), (a1, sizes[1]))))
            return
        if sc == 'brk':
            b0 = env.brk(0, vm)
            cur = b0
            for i in range(K):
                eng.assume(sizes[i] > 0)
                new = cur + sizes[i]
                r = env.brk(new, vm)
                eng.oblige('brk%d-returns-request' % i, bv(r) == bv(new))
                eng.oblige('brk%d-area-mapped' % i, mapped(vm, b0, new - b0))
                eng.oblige('brk%d-query' % i, bv(env.brk(0, vm)) == bv(new))
                cur = new
            return
        if sc == 'mixed':
            jit = MockJitter([0x1, 0, sizes[0]], vm)
            W.kernel32_HeapAlloc(jit)
            live.append((jit.ret[0], sizes[0], 'HeapAlloc'))
            check_all(eng, vm, live, 'mix0')
            a1 = env.mmap(0, sizes[1], 3, ANON, 0xffffffff, 0, vm)
            live.append((a1, sizes[1], 'mmap'))
            check_all(eng, vm, live, 'mix1')
            b0 = env.brk(0, vm)
            eng.assume(sizes[2] > 0)
            env.brk(b0 + sizes[2], vm)
            live.append((b0, sizes[2], 'brk'))
            check_all(eng, vm, live, 'mix2')
            a3 = env.mmap(b0, sizes[3], 3, ANON, 0xffffffff, 0, vm)     # hint inside the brk area
            live.append((a3, sizes[3], 'mmap'))
            check_all(eng, vm, live, 'mix3')
            return
        raise ValueError(sc)

    def safe(eng):
        try:
            return fn(eng)
        except Exception as ex:
            import traceback
            eng.fail('no-exception', dict(exc="%s: %s" % (type(ex).__name__, ex), tb=traceback.format_exc()[-700:]))
    try:
        recs = eng.explore(safe)
    finally:
        symx._seq_repeat_hook[0] = None
    common.absorb_engine(res, eng, recs, task['id'])
    for v in res['violations']:
        v['task_desc'] = dict(sc=sc, K=K)
    res['nontrivial'] = sum(1 for r in recs if r['status'] == 'ok' and len(r['obligations']) > 2)
    res['samples'] = ["%s: %d paths, %d obligations" % (task['id'], eng.stats['paths'], eng.stats['obligations'])]
    return res


class ConcreteVM(object):
    """Concrete twin of MockVM for the replay (plain ints, same overlap rule)."""

    def __init__(self):
        self.pages = {}

    def add_memory_page(self, addr, access, data, name=""):
        size = len(data)
        for a, i in self.pages.items():
            if addr < a + i['size'] and a < addr + size:
                raise RuntimeError("Error: memory page overlap")
        self.pages[addr] = dict(size=size, access=access)

    def get_all_memory(self):
        return {a: dict(i) for a, i in self.pages.items()}

    def set_mem(self, addr, data):
        pass

    def set_mem_access(self, addr, access):
        pass

    def is_mapped(self, addr, size):
        return all(any(a <= p < a + i['size'] for a, i in self.pages.items()) for p in (addr, addr + max(size, 1) - 1))

    def covered(self, addr, size):
        """every byte of [addr, addr+size) inside some page (interval sweep)"""
        pos = addr
        end = addr + size
        ivs = sorted((a, a + i['size']) for a, i in self.pages.items())
        for a, e in ivs:
            if a <= pos < e:
                pos = e
            if pos >= end:
                break
        # repeat until no progress (pages sorted: one sweep is enough when they do not overlap)
        return pos >= end


def replay(w):
    import miasm.os_dep.win_api_x86_32 as W
    import miasm.os_dep.common as C
    from vf.mockjit import MockJitter
    t = w['task_desc']
    inp = w['inputs']
    sc, K = t['sc'], t['K']
    sizes = [min(inp.get('size%d' % i, 0), 1 << 22) if False else inp.get('size%d' % i, 0) for i in range(K + 1)]
    vm = ConcreteVM()
    W.winobjs.heap = C.heap()
    W.winobjs.allocated_pages = {}
    live = []
    log = []

    def judge(a, s, what):
        log.append("%s -> 0x%x (size 0x%x)" % (what, a, s))
        if not vm.covered(a, s):
            return "%s: returned region 0x%x+0x%x is not fully mapped" % (what, a, s)
        for (a2, s2, w2) in live:
            if a == a2:
                return "%s returned 0x%x, already returned by %s" % (what, a, w2)
            if a < a2 + s2 and a2 < a + s:
                return "%s: 0x%x+0x%x overlaps %s 0x%x+0x%x" % (what, a, s, w2, a2, s2)
        live.append((a, s, what))
        return None
    try:
        if sc in ('heap3', 'heapalloc-api'):
            h = C.heap()
            for i in range(K):
                if sc == 'heap3':
                    a = h.vm_alloc(vm, sizes[i])
                else:
                    jit = MockJitter([1, 0, sizes[i]], vm)
                    W.kernel32_HeapAlloc(jit)
                    a = jit.ret[0]
                bad = judge(a, sizes[i], "alloc#%d(0x%x)" % (i, sizes[i]))
                if bad:
                    return True, bad + " ; history: " + " ; ".join(log)
            return False, "ok: " + " ; ".join(log)
        if sc == 'virtualalloc':
            jit = MockJitter([0, sizes[0], 0x3000, 0x4], vm)
            W.kernel32_VirtualAlloc(jit)
            a0 = jit.ret[0]
            bad = judge(a0, sizes[0], "VirtualAlloc(0, 0x%x)" % sizes[0])
            if bad:
                return True, bad
            hint = ['null', 'base', 'inside', 'free'][inp.get('hint', 0)]
            lp = {'null': 0, 'base': a0, 'inside': a0 + 0x1800, 'free': 0x50000000}[hint]
            jit = MockJitter([lp, sizes[1], 0x3000, 0x40], vm)
            W.kernel32_VirtualAlloc(jit)
            a1 = jit.ret[0]
            if hint == 'base':
                if a1 != a0:
                    return True, "VirtualAlloc(base) returned 0x%x" % a1
            else:
                bad = judge(a1, sizes[1], "VirtualAlloc(0x%x, 0x%x)" % (lp, sizes[1]))
                if bad:
                    return True, bad + " ; history: " + " ; ".join(log)
            jit = MockJitter([1, 0, sizes[2]], vm)
            W.kernel32_HeapAlloc(jit)
            bad = judge(jit.ret[0], sizes[2], "HeapAlloc(0x%x)" % sizes[2])
            return (bad is not None), (bad or "ok") + " ; history: " + " ; ".join(log)
        from miasm.os_dep.linux.environment import LinuxEnvironment_x86_32
        env = LinuxEnvironment_x86_32.__new__(LinuxEnvironment_x86_32)
        env.brk_current = LinuxEnvironment_x86_32.brk_current
        env.mmap_current = LinuxEnvironment_x86_32.mmap_current
        ANON = 0x22
        if sc == 'brk':
            b0 = env.brk(0, vm)
            cur = b0
            for i in range(K):
                new = cur + sizes[i]
                r = env.brk(new, vm)
                log.append("brk(0x%x) -> 0x%x" % (new, r))
                if r != new or env.brk(0, vm) != new:
                    return True, "brk returned 0x%x for request 0x%x ; " % (r, new) + " ; ".join(log)
                if not vm.covered(b0, new - b0):
                    hole = next(p for p in range(b0, new) if not vm.covered(p, 1))
                    return True, "brk area [0x%x, 0x%x) has an unmapped byte at 0x%x ; %s" % (b0, new, hole, " ; ".join(log))
                cur = new
            return False, "ok " + " ; ".join(log)
        if sc == 'mmap':
            a0 = env.mmap(0, sizes[0], 3, ANON, 0xffffffff, 0, vm)
            bad = judge(a0, sizes[0], "mmap(0, 0x%x)" % sizes[0])
            if bad:
                return True, bad
            hint = ['null', 'base', 'inside', 'free', 'below'][inp.get('hint', 0)]
            h = {'null': 0, 'base': a0, 'inside': a0 + 0x10, 'free': 0x60000000, 'below': 0x10000}[hint]
            a1 = env.mmap(h, sizes[1], 3, ANON, 0xffffffff, 0, vm)
            bad = judge(a1, sizes[1], "mmap(0x%x, 0x%x)" % (h, sizes[1]))
            if bad:
                return True, bad + " ; history: " + " ; ".join(log)
            a2 = env.mmap(0, sizes[2], 3, ANON, 0xffffffff, 0, vm)
            bad = judge(a2, sizes[2], "mmap(0, 0x%x)" % sizes[2])
            return (bad is not None), (bad or "ok") + " ; history: " + " ; ".join(log)
        if sc == 'mmap-fixed':
            a0 = env.mmap(0, sizes[0], 3, ANON, 0xffffffff, 0, vm)
            where = ['base', 'straddle', 'free'][inp.get('where', 0)]
            h = {'base': a0, 'straddle': a0 + 0x800, 'free': 0x60000000}[where]
            a1 = env.mmap(h, sizes[1], 3, ANON | 0x10, 0xffffffff, 0, vm)
            if a1 != h or not vm.covered(a1, sizes[1]):
                return True, "mmap(MAP_FIXED, 0x%x, 0x%x) returned 0x%x / region not fully mapped" % (h, sizes[1], a1)
            a2 = env.mmap(0, sizes[2], 3, ANON, 0xffffffff, 0, vm)
            live[:] = [(a0, sizes[0], 'mmap#0'), (a1, sizes[1], 'mmap fixed')]
            bad = judge(a2, sizes[2], "mmap(0, 0x%x)" % sizes[2])
            return (bad is not None), (bad or "ok")
        if sc == 'mixed':
            jit = MockJitter([1, 0, sizes[0]], vm)
            W.kernel32_HeapAlloc(jit)
            bad = judge(jit.ret[0], sizes[0], "HeapAlloc")
            if bad:
                return True, bad
            a1 = env.mmap(0, sizes[1], 3, ANON, 0xffffffff, 0, vm)
            bad = judge(a1, sizes[1], "mmap")
            if bad:
                return True, bad
            b0 = env.brk(0, vm)
            env.brk(b0 + sizes[2], vm)
            bad = judge(b0, sizes[2], "brk")
            if bad:
                return True, bad
            a3 = env.mmap(b0, sizes[3], 3, ANON, 0xffffffff, 0, vm)
            bad = judge(a3, sizes[3], "mmap(hint=brk base)")
            return (bad is not None), (bad or "ok") + " ; history: " + " ; ".join(log)
    except Exception as ex:
        return True, "scenario %s with sizes %r raised %s: %s ; history %s" % (sc, [hex(s) for s in sizes], type(ex).__name__, ex, " ; ".join(log))
    return None, "unknown scenario"


if __name__ == '__main__':
    from vf.props import c48
    common.main(c48)
