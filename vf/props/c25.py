"""C25 -- binary streams return exactly the underlying bits.

bin_stream_str (getbytes / getbits / get_uN / atomic-mode cache) is executed on a SYMBOLIC buffer (each byte a
solver variable), with symbolic start / length / base address in small signed ranges that cover before, inside
and after the buffer; z3 decides that the result is the corresponding extract of the buffer, that reads outside
raise IOError, and that cached reads equal uncached reads (also across atomic sections with a changed source).
"""
import builtins

from vf import common

PROP = 'C25'
LEVEL = 'other'

META = dict(
    functions=["miasm.core.bin_stream.bin_stream.getbytes / getbits / get_u8 / get_u16 / get_u32 / get_u64 / "
               "enter_atomic_mode / leave_atomic_mode", "bin_stream_str.__init__ / _getbytes", "bin_stream._getbytes"],
    stubs=["buffer = SymBytes (sequence of symbolic bytes supporting len / slicing / truth value)",
           "name `ord` in miasm.core.bin_stream bound to a pass-through accepting a 1-element SymBytes",
           "names upck8le..upck64be in miasm.core.bin_stream bound to pure-Python equivalents (struct is a C boundary)"],
    bounds=dict(quick=dict(buffer_lengths=[0, 1, 2, 3], base_address=[0, 5], start_margin_bytes=2, query_timeout_s=10),
                thorough=dict(buffer_lengths=[0, 1, 2, 3, 4, 5, 9], base_address=[0, 9], start_margin_bytes=3, query_timeout_s=30)),
    outside=["file / ELF / PE / VM backed streams (their _getbytes crosses I/O or C; they share getbits/getbytes/get_uN "
             "and the cache with the checked class)", "buffers longer than listed", "negative lengths",
             "zero-length bit reads outside the source (the code returns 0 without looking)"],
    assumptions=["lengths l, n >= 0", "base_address >= 0"],
    rule="task = (operation, buffer length); path = one (start, length, base) region; non-trivial = path reaching a value "
         "or IOError obligation",
    explanation="Bounded symbolic verification: every byte of the source, the offsets, lengths and the base address are solver "
                "variables while the real stream code runs; per path z3 proves result == extract(buffer) for all byte values.",
)


class SymBytes(object):
    def __init__(self, items):
        self.items = list(items)

    def __len__(self):
        return len(self.items)

    def __bool__(self):
        return len(self.items) > 0

    def __getitem__(self, i):
        if isinstance(i, slice):
            s, e, st = i.indices(len(self.items))
            return SymBytes(self.items[s:e:st])
        return self.items[builtins.int(i)]

    def __add__(self, o):
        return SymBytes(self.items + list(o.items if isinstance(o, SymBytes) else o))

    def __iter__(self):
        return iter(self.items)


def install():
    import miasm.core.bin_stream as BS

    def ord_(x):
        if isinstance(x, SymBytes):
            if len(x) != 1:
                raise TypeError("ord() expected a character, but string of length %d found" % len(x))
            return x.items[0]
        return builtins.ord(x)
    BS.ord = ord_

    def mk(n, le):
        def up(data):
            items = list(data.items if isinstance(data, SymBytes) else data)
            if len(items) != n:
                import struct
                raise struct.error("unpack requires a buffer of %d bytes" % n)
            if not le:
                items = items[::-1]
            r = 0
            for k, b in enumerate(items):
                r = r | (b << (8 * k))
            return r
        return up
    for n, nm in ((1, '8'), (2, '16'), (4, '32'), (8, '64')):
        setattr(BS, 'upck%sle' % nm, mk(n, True))
        setattr(BS, 'upck%sbe' % nm, mk(n, False))


OPS = ['getbytes', 'getbits', 'get_u', 'cache', 'cache-history']


def tasks(tier, seed):
    b = META['bounds'][tier]
    ts = []
    for L in b['buffer_lengths']:
        for op in OPS:
            ts.append(dict(op=op, L=L, tier=tier, id="%s:len%d" % (op, L), cost=L + 1))
    return ts


def twins(tier):
    return [dict(op='getbits', L=2, tier=tier, id='twin:lsb-first', bug='lsb_first')]


def concat_bits(items):
    """z3 bit-vector of 8*len bits, first byte most significant."""
    import z3
    from vf.refsem import bv_of_const
    bs = [bv_of_const(b, 8) for b in items]
    r = bs[0]
    for x in bs[1:]:
        r = z3.Concat(r, x)
    return r


def run_task(task):
    import z3
    import time
    from vf.symx import Engine, SymInt, lift
    from vf.refsem import bv_of_const
    install()
    from miasm.core.bin_stream import bin_stream_str
    from miasm.core.utils import LITTLE_ENDIAN, BIG_ENDIAN
    res = common.new_result(task)
    b = META['bounds'][task['tier']]
    eng = Engine(timeout_ms=b['query_timeout_s'] * 1000, max_paths=40000)
    eng.deadline = time.time() + (90 if task['tier'] == 'quick' else 1200)
    eng.on_path_end = common.make_known_attributor(common.load_known(PROP), task['id'])
    op, L = task['op'], task['L']
    bug = task.get('bug')
    Bmax = b['base_address'][1]
    mg = b['start_margin_bytes']

    def zbool(c):
        from vf.symx import SymBool
        return c.z if isinstance(c, SymBool) else z3.BoolVal(bool(c))

    def bytes_equal(got, items):
        if not isinstance(got, SymBytes) or len(got) != len(items):
            return z3.BoolVal(False)
        return z3.And(*[bv_of_const(g, 9) == bv_of_const(w, 9) for g, w in zip(got.items, items)]) if items \
            else z3.BoolVal(True)

    def fn(eng):
        buf = [eng.fresh_int('byte%d' % i, 0, 255) for i in range(L)]
        base = eng.fresh_int('base', 0, Bmax)
        bs = bin_stream_str(SymBytes(buf), base_address=base)
        if op in ('getbytes', 'cache', 'cache-history'):
            start = eng.fresh_int('start', -mg, Bmax + L + mg)
            ln = eng.fresh_int('l', 0, L + mg)
            rel = start - base
            inside = z3.And(zbool(rel >= 0), zbool(rel + ln <= L))
            if op == 'cache':
                bs.enter_atomic_mode()
            if op == 'cache-history':
                # section 1 reads, the source changes, section 2 must see the new content
                bs.enter_atomic_mode()
                try:
                    bs.getbytes(start, ln)
                except IOError:
                    pass
                bs.leave_atomic_mode()
                buf = [eng.fresh_int('newbyte%d' % i, 0, 255) for i in range(L)]
                bs.bin = SymBytes(buf)
                bs.enter_atomic_mode()
            try:
                got = bs.getbytes(start, ln)
                if op != 'getbytes':
                    got2 = bs.getbytes(start, ln)      # served from the cache
                    bs.leave_atomic_mode()
                    got3 = bs.getbytes(start, ln)      # uncached
            except IOError:
                eng.oblige('ioerror-only-outside', z3.Not(inside))
                return
            eng.oblige('no-ioerror-only-inside', inside)
            r = builtins.int(rel)
            n = builtins.int(ln)
            eng.oblige('bytes', bytes_equal(got, buf[r:r + n]))
            if op != 'getbytes':
                eng.oblige('cached-equals-uncached', z3.And(bytes_equal(got2, buf[r:r + n]),
                                                            bytes_equal(got3, buf[r:r + n])))
            return
        if op == 'get_u':
            addr = eng.fresh_int('addr', -mg, Bmax + L + mg)
            k = eng.choose('size', [1, 2, 4, 8])
            en = eng.choose('endian', [None, LITTLE_ENDIAN, BIG_ENDIAN])
            rel = addr - base
            inside = z3.And(zbool(rel >= 0), zbool(rel + k <= L))
            try:
                got = getattr(bs, 'get_u%d' % (8 * k))(addr, en) if en is not None else \
                    getattr(bs, 'get_u%d' % (8 * k))(addr)
            except IOError:
                eng.oblige('ioerror-only-outside', z3.Not(inside))
                return
            eng.oblige('no-ioerror-only-inside', inside)
            r = builtins.int(rel)
            items = buf[r:r + k]
            if en == BIG_ENDIAN:
                want = concat_bits(items)
            else:
                want = concat_bits(items[::-1])
            eng.oblige('integer', bv_of_const(lift(got), 8 * k + 1) == z3.ZeroExt(1, want))
            return
        if op == 'getbits':
            start = eng.fresh_int('start', -8 * mg, 8 * (Bmax + L + mg))
            n = eng.fresh_int('n', 0, 8 * (L + mg))
            rel = start - 8 * base
            inside = z3.And(zbool(rel >= 0), zbool(rel + n <= 8 * L))
            try:
                got = bs.getbits(start, n)
            except IOError:
                eng.oblige('ioerror-only-outside', z3.Or(z3.Not(inside), zbool(n == 0)))
                return
            if not (n == 0):
                eng.oblige('no-ioerror-only-inside', inside)
            else:
                eng.oblige('zero-bits-is-zero', zbool(lift(got) == 0))
                return
            W = 8 * L + 8
            S = z3.ZeroExt(8, concat_bits(buf))
            relz, nz = bv_of_const(rel, W), bv_of_const(n, W)
            if bug == 'lsb_first':
                want = z3.LShR(S, relz) & ((z3.BitVecVal(1, W) << nz) - 1)
            else:
                want = z3.LShR(S, z3.BitVecVal(8 * L, W) - relz - nz) & ((z3.BitVecVal(1, W) << nz) - 1)
            eng.oblige('bits', bv_of_const(lift(got), W) == want)
            return
        raise ValueError(op)

    def safe(eng):
        try:
            return fn(eng)
        except Exception as ex:
            import traceback
            eng.fail('no-exception', dict(exc="%s: %s" % (type(ex).__name__, ex), tb=traceback.format_exc()[-600:]))
    recs = eng.explore(safe)
    common.absorb_engine(res, eng, recs, task['id'])
    for v in res['violations']:
        v['task_desc'] = dict(op=op, L=L)
    res['nontrivial'] = sum(1 for r in recs if r['status'] == 'ok' and r['obligations'])
    res['samples'] = ["%s on a %d-byte symbolic buffer: %d paths" % (op, L, eng.stats['paths'])]
    return res


def replay(w):
    from miasm.core.bin_stream import bin_stream_str
    from miasm.core.utils import LITTLE_ENDIAN, BIG_ENDIAN
    t = w['task_desc']
    inp = w['inputs']
    L = t['L']
    buf = bytes(inp.get('byte%d' % i, 0) for i in range(L))
    base = inp.get('base', 0)
    bs = bin_stream_str(buf, base_address=base)
    op = t['op']

    def attempt(f):
        try:
            return ('ok', f())
        except IOError as e:
            return ('ioerror', str(e))
        except Exception as e:
            return ('exc', repr(e))
    if op in ('getbytes', 'cache', 'cache-history'):
        start, ln = inp['start'], inp['l']
        rel = start - base
        if op == 'cache-history':
            bs.enter_atomic_mode()
            attempt(lambda: bs.getbytes(start, ln))
            bs.leave_atomic_mode()
            buf = bytes(inp.get('newbyte%d' % i, 0) for i in range(L))
            bs.bin = buf
        want = ('ok', buf[rel:rel + ln]) if (rel >= 0 and rel + ln <= L) else ('ioerror', None)
        if op != 'getbytes':
            bs.enter_atomic_mode()
        got = attempt(lambda: bs.getbytes(start, ln))
        outs = [got]
        if op != 'getbytes':
            outs.append(attempt(lambda: bs.getbytes(start, ln)))
            bs.leave_atomic_mode()
            outs.append(attempt(lambda: bs.getbytes(start, ln)))
        for g in outs:
            if g[0] != want[0] or (want[0] == 'ok' and g[1] != want[1]):
                return True, "%s(start=%d, l=%d) on %r base %d gives %r, expected %r" % (op, start, ln, buf, base, g, want)
        return False, "agrees: %r" % (outs,)
    if op == 'get_u':
        addr = inp['addr']
        k = [1, 2, 4, 8][inp['size']]
        en = [None, LITTLE_ENDIAN, BIG_ENDIAN][inp['endian']]
        rel = addr - base
        got = attempt(lambda: getattr(bs, 'get_u%d' % (8 * k))(addr, en) if en is not None
                      else getattr(bs, 'get_u%d' % (8 * k))(addr))
        if rel >= 0 and rel + k <= L:
            want = ('ok', int.from_bytes(buf[rel:rel + k], 'big' if en == BIG_ENDIAN else 'little'))
        else:
            want = ('ioerror', None)
        bad = got[0] != want[0] or (want[0] == 'ok' and got[1] != want[1])
        return bad, "get_u%d(%d, %r) on %r base %d gives %r, expected %r" % (8 * k, addr, en, buf, base, got, want)
    if op == 'getbits':
        start, n = inp['start'], inp['n']
        rel = start - 8 * base
        got = attempt(lambda: bs.getbits(start, n))
        if n == 0:
            want = got if got[0] in ('ok', 'ioerror') else ('ok', 0)
            if got[0] == 'ok' and got[1] != 0:
                want = ('ok', 0)
        elif rel >= 0 and rel + n <= 8 * L:
            S = int.from_bytes(buf, 'big')
            want = ('ok', (S >> (8 * L - rel - n)) & ((1 << n) - 1))
        else:
            want = ('ioerror', None)
        bad = got[0] != want[0] or (want[0] == 'ok' and got[1] != want[1])
        return bad, "getbits(%d, %d) on %r base %d gives %r, expected %r" % (start, n, buf, base, got, want)
    return None, "unknown op"


if __name__ == '__main__':
    from vf.props import c25
    common.main(c25)
