"""C04 -- generated C code computes the reference value of every expression.

Pipeline, regenerated from /repo on every run:
  real TranslatorC.from_expr(e)  ->  `uintN_t f(uintA_t a, ...) { return (<text>) & <mask>; }`  (the wrapping codegen.py applies)
  -> clang-14 -O1 -emit-llvm together with the CURRENT miasm/jitter/op_semantics.c / op_semantics.h
  -> vf/llsym.py executes f symbolically (operands = solver bit-vectors, paths forked by the symx engine, LLVM poison
     tracked, calls into rot_left / cntleadzeros / udivN / ... interpreted from their own IR)
  -> z3 decides, per path:   no undefined behaviour,  no write to stdout,  no exit(),  result == refsem(e)
for ALL operand values on which miasm's own evaluation is defined (divisors non-zero).
A counterexample is replayed natively: the same C file + op_semantics.c compiled with -fsanitize=undefined, run on the
witness, compared with miasm's constant evaluation.
"""
import os
import re
import shutil
import subprocess
import tempfile

from vf import common, trharness as T

PROP = 'C04'
LEVEL = 'translation_validation'
CHUNK = 24
JITTER = '/repo/miasm/jitter'
CLANG = 'clang-14'
CFLAGS = ['-O1', '-fno-vectorize', '-fno-slp-vectorize', '-fno-discard-value-names', '-Wno-everything']

ROT_WIDTHS = (8, 16, 32, 64, 9, 17, 33)
BN_BITS = 256             # bn.h: BN_BYTE_SIZE 32
BIN = [o for o in T.BIN if o not in ('/', '%')]          # TranslatorC has no '/' and '%'

META = dict(
    functions=["miasm.ir.translators.C.TranslatorC.from_expr / from_ExprOp / from_ExprSlice / from_ExprCompose / from_ExprCond / "
               "from_ExprInt / from_ExprId / from_ExprMem", "miasm/jitter/op_semantics.h: SHIFT_RIGHT_ARITH / SHIFT_RIGHT_LOGIC / "
               "SHIFT_LEFT_LOGIC / parity / UDIV / UMOD / SDIV / SMOD", "miasm/jitter/op_semantics.c: rot_left / rot_right / "
               "cntleadzeros / cnttrailzeros / udivN / umodN / sdivN / smodN / parity_table (LLVM IR of the current source)",
               "miasm/jitter/bn.c: bignum_from_string / from_uint64 / to_uint64 / add / sub / and / or / xor / not / lshift / rshift / "
               "a_rshift / rol / ror / mask / is_zero / cntleadzeros / cnttrailzeros / getbit / sdiv (first statements) (LLVM IR of "
               "the current source; 256-bit bn_t passed by value)"],
    stubs=["MEM_LOOKUP_nn(jitcpu, addr) -> uninterpreted function of the 64-bit address (same function on the reference side)",
           "fprintf/fwrite(stderr) -> recorded, no effect", "sscanf(str, \"%8x\", &word) on a constant string (bignum_from_string) -> "
           "interpreted", "uninitialised stack bytes -> arbitrary values", "exit() -> path ends (a violation when the reference is defined)"],
    bounds=dict(quick=dict(widths=[1, 8, 16, 32, 64], shift_widths=[8, 16, 32, 64], depth2_widths=[8, 32], depth2_fraction=0.2,
                           max_div_width=32, max_mul_width=64, wide_widths=[80, 128], query_timeout_s=20, loop_steps=200000),
                thorough=dict(widths=[1, 3, 8, 16, 17, 32, 64], shift_widths=[8, 16, 32, 64], depth2_widths=[8, 16, 32],
                              depth2_fraction=1.0, max_div_width=64, max_mul_width=64, wide_widths=[72, 80, 128, 200, 256], query_timeout_s=60,
                              loop_steps=200000)),
    outside=["big-number path: bignum_mul / bignum_udiv / bignum_umod / bignum_sdiv / bignum_smod have data-dependent loops: attempted "
             "under the per-shape budget (thorough; quick keeps plain sdiv only) and normally end inconclusive", "wide memory reads "
             "(MEM_LOOKUP_INT_BN / _BN_INT / _BN_BN)", "floating-point operators", "shifts, divisions and "
             "remainders on widths other than 8/16/32/64 (SHIFT_* instantiate uint<size>_t and udivN/sdivN/... exist for these sizes "
             "only: other widths do not compile), memory reads of other sizes (no MEM_LOOKUP_nn), rotations on widths other than "
             "8/16/32/64/9/17/33 (rot_left/rot_right refuse them at run time with 'inv size' and exit)", "x86_cpuid, segm, bcdadd, "
             "access_/load_ operators", "clang-14 -O1 stands for 'the C compiler': gcc's code generation is not modelled",
             "the real MEM_LOOKUP_* (vm_mngr.c, property C24)"],
    assumptions=["identifiers hold values below 2^size (codegen masks every assignment)", "every divisor of the expression is "
                 "non-zero (miasm's evaluation is undefined otherwise)", "the value observed is (<text>) & mask(size), resp. "
                 "bignum_mask(<text>, size) for wide values, as codegen.py emits it", "AssertionError / NotImplementedError raised "
                 "by TranslatorC = the expression is not accepted"],
    rule="shape = expression over identifiers (operands fully symbolic); obligations per path of the C code; non-trivial = shape whose "
         "C code calls into op_semantics.c or forks",
    explanation="Translation validation through the compiler's IR: the C text produced by the real translator is compiled with the "
                "current runtime sources and executed symbolically; z3 proves result == reference and absence of UB for all "
                "operand values.",
    trusted_base=["z3 5.1", "clang-14 front end and -O1 pipeline", "vf/llsym.py", "vf/refsem.py"],
)


def ctype(n):
    n = max(n, 8)
    p = 8
    while p < n:
        p *= 2
    return "uint%d_t" % p, p


def all_shapes(tier, seed):
    b = META['bounds'][tier]
    sh = T.shapes(b['widths'], seed, BIN, T.CMP, T.UN, ext=True, deep_widths=b['depth2_widths'],
                  max_div_width=b['max_div_width'], max_mul_width=b['max_mul_width'], max_sdiv_width=b['max_div_width'],
                  deep_fraction=b['depth2_fraction'])
    out = []
    for sid, src in sh:
        m = re.search(r':w(\d+)', sid)
        w = int(m.group(1)) if m else None
        if w is not None and w > 64:
            out.append((sid, src))
            continue
        if re.search(r"'(<<|>>|a>>|udiv|umod|sdiv|smod)'", src) and w not in b['shift_widths']:
            continue          # SHIFT_* / udivN... exist for uint8/16/32/64 only: other widths do not compile
        if re.search(r"'(<<<|>>>)'", src) and w not in ROT_WIDTHS:
            continue          # rot_left/rot_right reject other sizes at run time ("inv size", exit)
        if sid == 'mem:p16:24':
            continue          # MEM_LOOKUP_nn exists for 8/16/32/64 only
        out.append((sid, src))
    # big-number path (bn.c): values wider than 64 bits
    wide = T.shapes(b['wide_widths'], seed + 1, BIN, T.CMP, T.UN, ext=False, deep_widths=(), mem=False,
                    max_div_width=256, max_mul_width=256, max_sdiv_width=256)
    for sid, src in wide:
        # data-dependent loops (bignum_udiv and its users) and wide products are hopeless symbolically: one plain shape and
        # one constant shape each, under the per-shape budget; the rest would only add time-outs
        if re.search(r"'(udiv|umod|sdiv|smod|\*)'", src):
            if tier == 'quick' and not (sid.startswith('bin:sdiv:') and not re.search(r":c[0-9a-f]+", sid)):
                continue      # thorough only (they end inconclusive after the budget); plain sdiv stays: its first statements matter
            if re.search(r":c[0-9a-f]+", sid) and not sid.endswith(':c1'):
                continue
        out.append(('wide:' + sid, src))
    for w in b['wide_widths']:
        a, c_ = T.I('a', w), T.I('c', 32)
        out.append(('wide:slice-to-native:w%d' % w, "ExprSlice(%s, %d, %d)" % (a, w - 40, w - 8)))
        out.append(('wide:compose-native:w%d' % w, "ExprCompose(%s, ExprSlice(%s, 0, %d))" % (c_, a, w - 32)))
        out.append(('wide:cond-native:w%d' % w, "ExprCond(%s, %s, %s)" % (c_, a, T.I('b', w))))
        out.append(('wide:shift-native-count:w%d' % w, T.O('<<', a, "ExprCompose(%s, %s)" % (T.I('n', 8), T.C(0, w - 8)))))
        # shift / rotation counts below the width (n & 0x3f, zero-extended): the in-range behaviour of the wide shifts
        cnt = "ExprCompose(ExprSlice(%s, 0, 6), %s)" % (T.I('n', 8), T.C(0, w - 6))
        for op in ('<<', '>>', 'a>>', '<<<', '>>>'):
            out.append(('wide:inrange:%s:w%d' % (op, w), T.O(op, a, cnt)))
        out.append(('wide:const-slice:w%d' % w, "ExprSlice(%s, %d, %d)" % (T.C(((0xC000A1B2C3D4E5F60718 << w) >> 80) | 0x5a, w), w - 8, w)))
    # the widest big numbers (every word of bn_t in use): products by constants keep the loops of bignum_mul concrete
    a256 = T.I('a', BN_BITS)
    out.append(('wide:mul-const:w256:c1', T.O('*', a256, T.C(1, BN_BITS))))
    out.append(('wide:mul-const:w256:c100000001', T.O('*', a256, T.C(0x100000001, BN_BITS))))
    out.append(('wide:add:w256', T.O('+', a256, T.I('b', BN_BITS))))
    # rcl/rcr rotate a register extended by the carry: widths 9, 17 and 33 have their own cases in rot_left/rot_right
    for w in (9, 17, 33):
        a, bb = T.I('a', w), T.I('b', w)
        for op in ('<<<', '>>>'):
            out.append(('rot:%s:w%d' % (op, w), T.O(op, a, bb)))
            out.append(('rot:%s:w%d:c1' % (op, w), T.O(op, a, T.C(1, w))))
            out.append(('rot:%s:w%d:cw' % (op, w), T.O(op, a, T.C(w, w))))
            out.append(('rot:%s:w%d:compose' % (op, w), T.O(op, "ExprCompose(%s, %s)" % (T.I('r', w - 1), T.I('f', 1)),
                                                              "ExprCompose(%s, %s)" % (T.I('n', 8), T.C(0, w - 8)))))
    return out


def tasks(tier, seed):
    sh = all_shapes(tier, seed)
    native = [x for x in sh if not x[0].startswith('wide:')]
    wide = [x for x in sh if x[0].startswith('wide:')]
    ts = [dict(id='c:%05d' % i, shapes=native[i:i + CHUNK], tier=tier) for i in range(0, len(native), CHUNK)]
    ts += [dict(id='w:%05d' % i, shapes=wide[i:i + 6], tier=tier, cost=2) for i in range(0, len(wide), 6)]
    return ts


def twins(tier):
    return [dict(id='twin:ashr-reference-logical', shapes=[('bin:a>>:w8', T.O('a>>', T.I('a', 8), T.I('b', 8)))], tier=tier,
                 bug='ashr_as_lshr')]


HEADER = """#include <stdio.h>
#include <stdlib.h>
#include <stdint.h>
#include "op_semantics.h"
#include "bn.h"
typedef struct { int dummy; } JitCpu;
extern JitCpu *jitcpu;
extern uint8_t MEM_LOOKUP_08(JitCpu *jitcpu, uint64_t addr);
extern uint16_t MEM_LOOKUP_16(JitCpu *jitcpu, uint64_t addr);
extern uint32_t MEM_LOOKUP_32(JitCpu *jitcpu, uint64_t addr);
extern uint64_t MEM_LOOKUP_64(JitCpu *jitcpu, uint64_t addr);
"""


def c_function(k, e, text):
    from miasm.expression.expression import get_expr_ids
    ids = sorted(get_expr_ids(e), key=lambda x: x.name)
    params = ", ".join("%s %s" % (ctype(i.size)[0] if i.size <= 64 else 'bn_t', i.name) for i in ids)
    if e.size <= 64:
        rty, _ = ctype(e.size)
        mask = "0x%xULL" % ((1 << e.size) - 1)
        return "%s f%d(%s) { return (%s) & %s; }" % (rty, k, params or 'void', text, mask), ids
    # wide destination: codegen emits  dst = bignum_mask(<text>, size);
    return "bn_t f%d(%s) { return bignum_mask(%s, %d); }" % (k, params or 'void', text, e.size), ids


def translate(shapes):
    """-> list of dict(sid, src, e, text|None, status)"""
    from miasm.ir.translators.C import TranslatorC
    out = []
    for sid, src in shapes:
        e = T.build(src)
        rec = dict(sid=sid, src=src, e=e, text=None, status='ok')
        if e.size > BN_BITS or any(x.size > BN_BITS for x in _subexprs(e)):
            rec['status'] = 'wide'
        else:
            try:
                txt = TranslatorC().from_expr(e)
                if not isinstance(txt, str):
                    rec['status'] = 'exception'
                    rec['why'] = "from_expr returned %r instead of C text" % (txt,)
                else:
                    rec['text'] = txt
            except (NotImplementedError, AssertionError) as ex:
                # explicit refusal ('Unknown op', size guards such as `assert size <= 64`): the translator does not accept it
                rec['status'] = 'rejected'
                rec['why'] = "%s %s" % (type(ex).__name__, ex)
            except Exception as ex:
                rec['status'] = 'exception'
                rec['why'] = "%s: %s" % (type(ex).__name__, ex)
        out.append(rec)
    return out


def _subexprs(e):
    out = []
    e.visit(lambda x: out.append(x) or x)
    return out


def compile_ll(recs, workdir):
    """Compile the accepted shapes (one function each) and the runtime to LLVM IR.  Functions that do not compile are
    marked and left out.  -> text of the linked module (shapes + op_semantics.c + bn.c)"""
    live = [r for r in recs if r['status'] == 'ok']
    for attempt in range(len(live) + 1):
        lines = [HEADER]
        index = {}
        for k, r in enumerate(live):
            fn, ids = c_function(r['k'], r['e'], r['text'])
            index[len(lines) + HEADER.count('\n')] = r
            r['cfun'] = fn
            r['ids'] = ids
            lines.append(fn)
        src = "\n".join(lines) + "\n"
        cfile = os.path.join(workdir, 't.c')
        open(cfile, 'w').write(src)
        p = subprocess.run([CLANG] + CFLAGS + ['-Werror=implicit-function-declaration', '-S', '-emit-llvm', '-I', JITTER, cfile, '-o',
                                               os.path.join(workdir, 't.ll')], capture_output=True, text=True)
        if p.returncode == 0:
            break
        bad_lines = set(int(m.group(1)) for m in re.finditer(r't\.c:(\d+):\d+: (?:fatal )?error', p.stderr))
        srclines = src.split('\n')
        dropped = False
        for ln in bad_lines:
            m = re.match(r'\w+ f(\d+)\(', srclines[ln - 1])
            if m:
                for r in live:
                    if r['k'] == int(m.group(1)):
                        r['status'] = 'does-not-compile'
                        r['why'] = [l for l in p.stderr.split('\n') if 't.c:%d:' % ln in l][0][:200]
                        dropped = True
        live = [r for r in live if r['status'] == 'ok']
        if not dropped:
            raise RuntimeError("clang failed: %s" % p.stderr[:500])
    lls = [os.path.join(workdir, 't.ll')]
    for unit in ('op_semantics.c', 'bn.c'):
        out = os.path.join(workdir, unit[:-2] + '.ll')
        p = subprocess.run([CLANG] + CFLAGS + ['-S', '-emit-llvm', '-I', JITTER, os.path.join(JITTER, unit), '-o', out],
                           capture_output=True, text=True)
        if p.returncode != 0:
            raise RuntimeError("clang failed on %s: %s" % (unit, p.stderr[:500]))
        lls.append(out)
    p = subprocess.run(['llvm-link-14', '-S'] + lls + ['-o', os.path.join(workdir, 'all.ll')], capture_output=True, text=True)
    if p.returncode != 0:
        raise RuntimeError("llvm-link failed: %s" % p.stderr[:500])
    return open(os.path.join(workdir, 'all.ll')).read()


class BVInput(object):
    def __init__(self, z, size):
        self.z, self.w, self.lo, self.hi = z, size, 0, (1 << size) - 1


def make_ref(bug=None):
    import z3
    from vf.refsem import Ref

    class CRef(Ref):
        def read_mem(self, p, psize, size):
            f = z3.Function('MEM_LOOKUP_%d' % size, z3.BitVecSort(64), z3.BitVecSort(size))
            a64 = z3.ZeroExt(64 - psize, p) if psize < 64 else p
            return f(a64)
    return CRef(bugs=frozenset([bug]) if bug else frozenset())


def mem_lookup(size):
    import z3
    from vf.llsym import Val

    def f(interp, args):
        fn = z3.Function('MEM_LOOKUP_%d' % size, z3.BitVecSort(64), z3.BitVecSort(size))
        a = args[1]
        interp.require(z3.Not(a.poison), "MEM_LOOKUP_%02d on a poison address" % size)
        return Val(fn(a.bv))
    return f


def run_task(task):
    import time
    import z3
    from vf.symx import Engine
    from vf import llsym
    res = common.new_result(task)
    b = META['bounds'][task['tier']]
    known = common.load_known(PROP)
    recs = translate(task['shapes'])
    for k, r in enumerate(recs):
        r['k'] = k
    workdir = tempfile.mkdtemp(prefix='c04_')
    try:
        all_ll = compile_ll(recs, workdir)
    finally:
        shutil.rmtree(workdir, ignore_errors=True)
    mod = llsym.Module(all_ll)
    externals = {'MEM_LOOKUP_%02d' % s: mem_lookup(s) for s in (8, 16, 32, 64)}
    for r in recs:
        sid = r['sid']
        if r['status'] in ('rejected', 'wide'):
            res.setdefault('rejected', 0)
            res['rejected'] += 1
            continue
        if r['status'] in ('exception', 'does-not-compile'):
            res['obligations'] += 1
            v = dict(site=sid, ob='translator-exception' if r['status'] == 'exception' else 'compiles', src=r['src'], inputs={},
                     text=r['text'], exc=r['why'])
            for kf in known:
                if kf.get('status', 'known') == 'known' and common.site_matches(kf, sid) and kf.get('ob') in (None, v['ob']) \
                        and kf.get('ob_regex') is None:
                    v['known'] = kf['id']
            res['violations'].append(v)
            continue
        e = r['e']
        eng = Engine(timeout_ms=b['query_timeout_s'] * 1000, max_paths=3000)
        eng.deadline = time.time() + (8 * b['query_timeout_s'] if not sid.startswith('wide:') else 3 * b['query_timeout_s'])
        eng.on_path_end = common.make_known_attributor(known, sid)
        eng.fifo = sid.startswith('wide:')      # breadth first: the early branches of the big-number routines come first
        info = dict(called=set(), paths=0)

        def fn(eng, r=r, e=e):
            ref = make_ref(task.get('bug'))
            want = ref.tr(e)
            it = llsym.Interp(mod, eng, externals, max_steps=b['loop_steps'])
            f = mod.funcs['f%d' % r['k']]
            args = []
            sret = bool(f.params) and any(mk.startswith('@@sret') for mk in f.params[0][2])
            if sret:
                it.mem['result'] = [z3.BitVec('result_uninit_%d' % k_, 8) for k_ in range(BN_BITS // 8)]
                args.append(llsym.Ptr('result', 0))
            for i in r['ids']:
                z = ref.var(i.name, i.size)
                eng.inputs[i.name] = BVInput(z, i.size)
                if i.size <= 64:
                    _, cw = ctype(i.size)
                    args.append(llsym.Val(z3.ZeroExt(cw - i.size, z) if cw > i.size else z))
                else:
                    full = z3.ZeroExt(BN_BITS - i.size, z) if i.size < BN_BITS else z
                    it.mem['arg:' + i.name] = [z3.simplify(z3.Extract(8 * k_ + 7, 8 * k_, full)) for k_ in range(BN_BITS // 8)]
                    args.append(llsym.Ptr('arg:' + i.name, 0))
            nz = ref.nonzero_divisors()
            if nz:
                eng.assume(z3.And(*nz))
            extra = dict(src=r['src'], text=r['text'])
            it.on_stdout = lambda fname: eng.fail('no-stdout-write', dict(extra, what="the C code calls %s (writes to stdout)" % fname))
            try:
                ret = it.call('f%d' % r['k'], args)
            except llsym.Abort as ex:
                info['called'] |= it.called
                eng.fail('no-exit', dict(extra, what="the C code calls %s()" % ex))
                return
            except llsym.Unsupported as ex:
                # this path is beyond the interpreter (e.g. the step bound in bignum_udiv): inconclusive, other paths go on
                from vf.symx import Inconclusive
                raise Inconclusive("llsym: %s" % ex)
            if sret:
                ret = llsym.Val(z3.simplify(z3.Concat(*reversed(it.mem['result']))))
            info['called'] |= it.called
            eng.oblige('no-undefined-behaviour', z3.Not(ret.poison), dict(extra, what="the returned value is poison (deferred UB: "
                                                                                  "overflowing signed arithmetic or oversized shift)"))
            rw = ctype(e.size)[1] if e.size <= 64 else BN_BITS
            got = z3.Extract(e.size - 1, 0, ret.bv) if rw > e.size else ret.bv
            if rw > e.size:
                eng.oblige('masked-result', z3.Extract(rw - 1, e.size, ret.bv) == 0, extra)
            eng.oblige('value-equals-reference', got == want, extra)
        try:
            recs_ = eng.explore(fn)
        except llsym.Unsupported as ex:
            res['inconclusive'].append(dict(site=sid, why="llsym: %s" % ex))
            continue
        common.absorb_engine(res, eng, recs_, sid)
        if eng.stats['paths'] > 1 or info['called'] - {'f%d' % r['k']}:
            res['nontrivial'] += 1
        for v in res['violations']:
            if v['site'] == sid and 'src' not in v:
                v['src'] = r['src']
    if recs:
        r0 = [r for r in recs if r.get('cfun')]
        if r0:
            res['samples'].append("%s  =>  %s" % (r0[0]['src'], r0[0]['cfun']))
    return res


MAIN = """
#include <inttypes.h>
JitCpu *jitcpu = 0;
uint8_t MEM_LOOKUP_08(JitCpu *j, uint64_t a) { return 0; }
uint16_t MEM_LOOKUP_16(JitCpu *j, uint64_t a) { return 0; }
uint32_t MEM_LOOKUP_32(JitCpu *j, uint64_t a) { return 0; }
uint64_t MEM_LOOKUP_64(JitCpu *j, uint64_t a) { return 0; }
int main(void) { %s }
"""


def c_literal(v, size):
    if size <= 64:
        return "%dULL" % v
    return "(bn_t){{%s}}" % ", ".join("0x%xU" % ((v >> (32 * k)) & 0xffffffff) for k in range(BN_BITS // 32))


def replay(w):
    """Native replay: compile the C text + the current op_semantics.c with UBSan, run on the witness, compare with miasm's
    constant evaluation."""
    from miasm.expression.expression import ExprInt
    from miasm.expression.simplifications import expr_simp
    src = w['src']
    e = T.build(src)
    if w['ob'] in ('translator-exception', 'compiles'):
        recs = translate([(w['site'], src)])
        recs[0]['k'] = 0
        if recs[0]['status'] == 'exception':
            return True, "TranslatorC.from_expr(%s): %s" % (e, recs[0]['why'])
        if w['ob'] == 'translator-exception':
            return False, "translated"
        d = tempfile.mkdtemp(prefix='c04r_')
        try:
            compile_ll(recs, d)
        finally:
            shutil.rmtree(d, ignore_errors=True)
        if recs[0]['status'] == 'does-not-compile':
            return True, "C code for %s does not compile: %s :: %s" % (e, recs[0]['text'], recs[0]['why'])
        return False, "compiles"
    recs = translate([(w['site'], src)])
    r = recs[0]
    r['k'] = 0
    if r['status'] != 'ok':
        return False, "not translated: %s" % r['status']
    fn, ids = c_function(0, e, r['text'])
    inp = dict(w.get("inputs", {}))
    vals = {i: inp.get(i.name, 0) & ((1 << i.size) - 1) for i in ids}
    try:
        ref = expr_simp(e.replace_expr({i: ExprInt(v, i.size) for i, v in vals.items()}))
    except ZeroDivisionError:
        return False, "reference undefined"
    if not ref.is_int():
        return False, "reference does not evaluate to a constant (%s)" % ref
    d = tempfile.mkdtemp(prefix='c04r_')
    try:
        cfile = os.path.join(d, 'r.c')
        call = "f0(%s)" % ", ".join(c_literal(vals[i], i.size) for i in ids)
        if e.size <= 64:
            body = 'uint64_t r = (uint64_t) %s; fprintf(stderr, "RESULT=%%" PRIx64 "\\n", r); return 0;' % call
        else:
            body = ('bn_t r = %s; int k; fprintf(stderr, "RESULT="); for (k = %d; k >= 0; k--) fprintf(stderr, "%%08x", r.array[k]); '
                    'fprintf(stderr, "\\n"); return 0;' % (call, BN_BITS // 32 - 1))
        open(cfile, 'w').write(HEADER + fn + "\n" + MAIN % body)
        exe = os.path.join(d, 'r')
        p = subprocess.run([CLANG, '-O1', '-Wno-everything', '-fsanitize=undefined', '-fno-sanitize-recover=all', '-I', JITTER, cfile,
                            os.path.join(JITTER, 'op_semantics.c'), os.path.join(JITTER, 'bn.c'), '-lm', '-o', exe],
                           capture_output=True, text=True)
        if p.returncode != 0:
            return False, "replay build failed: %s" % p.stderr[:300]
        try:
            q = subprocess.run([exe], capture_output=True, text=True, timeout=20)
        except subprocess.TimeoutExpired:
            return True, "%s with %s: C text `%s` does not compute a value: still running after 20 s (reference 0x%x)" % (
                e, {i.name: hex(v) for i, v in vals.items()}, r['text'], int(ref))
    finally:
        shutil.rmtree(d, ignore_errors=True)
    desc = "%s with %s: C text `%s`" % (e, {i.name: hex(v) for i, v in vals.items()}, r['text'])
    if q.stdout:
        return True, "%s writes to stdout: %r" % (desc, q.stdout[:100])
    m = re.search(r'RESULT=([0-9a-f]+)', q.stderr)
    if q.returncode != 0 or not m:
        return True, "%s does not compute a value: exit status %d, %s (reference 0x%x)" % (
            desc, q.returncode, (q.stderr.strip().split('\n') or [''])[0][:200], int(ref))
    got = int(m.group(1), 16)
    if got != int(ref):
        return True, "%s computes 0x%x, miasm evaluates 0x%x" % (desc, got, int(ref))
    return False, "%s computes 0x%x like miasm" % (desc, got)


if __name__ == '__main__':
    from vf.props import c04
    common.main(c04)
