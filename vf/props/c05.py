"""C05 -- z3 translation agrees with the reference semantics.

The real TranslatorZ3.from_expr output (a z3 term) is compared with refsem's term for the same expression;
z3 decides `translated != reference` over all identifier values and all contents of the per-pointer-width
memory arrays (the translator's own memory abstraction), for both byte orders.
"""
from vf import common, trharness as T

PROP = 'C05'
LEVEL = 'translation_validation'
CHUNK = 25

META = dict(
    functions=["miasm.ir.translators.z3_ir.TranslatorZ3.from_expr / from_ExprOp / from_ExprMem / from_ExprSlice / "
               "from_ExprCompose / from_ExprCond / from_ExprInt / from_ExprId / _sdivC", "Z3Mem.get / __getitem__",
               "miasm.ir.translators.translator.Translator.from_expr (dispatch + cache)"],
    stubs=[],
    bounds=dict(quick=dict(widths=[1, 8, 16, 32, 64, 128], depth2_widths=[8, 32], depth2_fraction=0.25, max_div_width=16, max_sdiv_width=8,
                           max_mul_width=64, endianness=['<', '>'], query_timeout_s=20),
                thorough=dict(widths=[1, 2, 3, 7, 8, 16, 24, 32, 48, 64, 128], depth2_widths=[8, 32], depth2_fraction=1.0,
                              max_div_width=16, max_sdiv_width=16, max_mul_width=64, endianness=['<', '>'], query_timeout_s=60)),
    outside=["sdiv/smod/udiv/umod// /% above 16 bits and * above 64 bits (solver cost)", "literal constants other than "
             "{0, 1, msb, mask, one seed-chosen value} (from_ExprInt needs a concrete integer; no constant-dependent "
             "control flow in the translator)", "ExprLoc with a LocationDB", "operators the translator rejects", "parity of operands narrower than 8 bits (the translator extracts the low byte and raises)", "sdiv/smod above 8 bits (quick) / 16 bits (thorough): the translator's 2x-width product vs bvsdiv"],
    assumptions=["division by zero excluded: every divisor of the original expression is assumed non-zero",
                 "memory = the translator's own model: one array mem<N> per pointer width N, byte order = translator's"],
    rule="shape = expression over identifiers a,b,c (operands fully symbolic); one SMT query per (shape, byte order); "
         "non-trivial = query that needed the solver (not closed by syntactic identity)",
    explanation="Translation validation: for each shape the z3 term produced by the real translator is proved equal to "
                "the reference term for all operand and memory values; a model is replayed by evaluating the translated "
                "term under it and comparing with miasm's own constant evaluation and an independent evaluator.",
    trusted_base=["z3 5.1", "vf/refsem.py", "vf/ceval.py (replay)"],
)


def all_shapes(tier, seed):
    b = META['bounds'][tier]
    return T.shapes(b['widths'], seed, T.BIN, T.CMP, T.UN, ext=True, deep_widths=b['depth2_widths'],
                    max_div_width=b['max_div_width'], max_mul_width=b['max_mul_width'], max_sdiv_width=b['max_sdiv_width'],
                    deep_fraction=b['depth2_fraction'])


def tasks(tier, seed):
    sh = all_shapes(tier, seed)
    b = META['bounds'][tier]
    ts = []
    for en in b['endianness']:
        use = sh if en == '<' else [s for s in sh if 'mem' in s[0]]
        for i in range(0, len(use), CHUNK):
            ts.append(dict(id='%s:%05d' % ('le' if en == '<' else 'be', i), shapes=use[i:i + CHUNK], endian=en,
                           tier=tier, timeout_s=b['query_timeout_s']))
    return ts


def twins(tier):
    return [dict(id='twin:ashr', shapes=[('bin:a>>:w8', T.O('a>>', T.I('a', 8), T.I('b', 8)))], endian='<',
                 tier=tier, timeout_s=10, bug='ashr_as_lshr'),
            dict(id='twin:endian', shapes=[('mem:p32:32', "ExprMem(%s, 32)" % T.I('p', 32))], endian='<',
                 tier=tier, timeout_s=10, bug='flip_endian')]


def translate(e, endian):
    from miasm.ir.translators.z3_ir import TranslatorZ3
    return TranslatorZ3(endianness=endian).from_expr(e)


def run_task(task):
    import z3
    from vf.refsem import Ref
    res = common.new_result(task)
    known = [k for k in common.load_known(PROP) if k.get('status', 'known') == 'known']
    import time
    for sid, src in task['shapes']:
        e = T.build(src)
        site = sid
        t0 = time.time()
        try:
            t = translate(e, task['endian'])
        except NotImplementedError:
            res['samples'].append("%s: not accepted by the translator" % sid)
            continue
        except Exception as ex:
            res['obligations'] += 1
            res['violations'].append(dict(site=site, ob='translates', src=src, endian=task['endian'],
                                          exc="%s: %s" % (type(ex).__name__, ex), ids={}, mems={}))
            continue
        bug = task.get('bug')
        ref = Ref(mem_model='perwidth', endian=('>' if task['endian'] == '<' else '<') if bug == 'flip_endian'
                  else task['endian'], bugs=frozenset([bug]) if bug else frozenset())
        rt = ref.tr(e)
        hyp = T.nonzero_divisor_hyp(ref)
        res['obligations'] += 1
        if z3.eq(z3.simplify(t), z3.simplify(rt)):
            res['discharged'] += 1
            continue
        res['nontrivial'] += 1
        st, m = T.decide(t, rt, hyp, task['timeout_s'] * 1000)
        res['queries'] += 1
        res['solver_s'] += time.time() - t0
        if st == 'discharged':
            res['discharged'] += 1
        elif st == 'inconclusive':
            res['inconclusive'].append(dict(site=site, why=str(m)))
        else:
            w = T.witness_from_model(m, ref, e) if m is not None else dict(ids={}, mems={})
            v = dict(site=site, ob='equivalent', src=src, endian=task['endian'], inputs=w['ids'], **w)
            for k in known:
                if common.site_matches(k, site):
                    v['known'] = k['id']
            res['violations'].append(v)
    res['paths'] = len(task['shapes'])
    res['samples'].append("%s [%s]" % (task['shapes'][0][1], task['endian']))
    return res


def replay(w):
    """Evaluate the translated term under the witness and compare with miasm's own evaluation."""
    import z3
    from miasm.expression.simplifications import expr_simp
    from miasm.expression.expression import ExprInt, ExprId
    from vf.ceval import Undefined
    e = T.build(w['src'])
    if w.get('ob') == 'translates':
        try:
            translate(e, w['endian'])
        except NotImplementedError:
            return False, "not accepted"
        except Exception as ex:
            return True, "TranslatorZ3 raised %r on %s" % (ex, e)
        return False, "translates fine"
    t = translate(e, w['endian'])
    ids = w.get('ids', {})
    mems = {int(ps): {int(a): v for a, v in d.items()} for ps, d in w.get('mems', {}).items()}
    try:
        want = T.ceval_pw(e, ids, lambda ps: (lambda a: mems.get(ps, {}).get(a, 0)), w['endian'])
    except Undefined as ex:
        return False, "reference undefined (%s)" % ex
    # miasm's own evaluation (memory-free shapes only): substitute and fold
    own = None
    if not mems:
        sub = {}

        def cb(x):
            if x.is_id():
                sub[x] = ExprInt(ids.get(x.name, 0), x.size)
            return x
        e.visit(cb)
        r = expr_simp(e.replace_expr(sub))
        if r.is_int():
            own = int(r)
    s = z3.Solver()
    names = set()

    def cb2(x):
        if x.is_id():
            names.add((x.name, x.size))
        return x
    e.visit(cb2)
    for (nm, sz) in names:
        s.add(z3.BitVec(nm, sz) == ids.get(nm, 0))
    for ps, d in mems.items():
        arr = z3.Array('mem%d' % ps, z3.BitVecSort(ps), z3.BitVecSort(8))
        for a, v in d.items():
            s.add(z3.Select(arr, z3.BitVecVal(a, ps)) == v)
    res = z3.BitVec('__result', t.size())
    s.add(res == t)
    if s.check() != z3.sat:
        return None, "could not evaluate translated term"
    got = s.model().eval(res, model_completion=True).as_long()
    detail = "%s [%s] under %r mem %r: z3 term evaluates to 0x%x, reference 0x%x, miasm's own evaluation %s" % (
        e, w['endian'], ids, mems, got, want, hex(own) if own is not None else 'n/a')
    if own is not None and own != want:
        return None, "reference evaluators disagree: " + detail
    return got != want, detail


if __name__ == '__main__':
    from vf.props import c05
    common.main(c05)
