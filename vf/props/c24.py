"""C24 -- the virtual memory manager behaves like a byte map with permissions.

The CURRENT miasm/jitter/vm_mngr.c is compiled by clang-14 to LLVM IR and executed by vf/llsym.py (heap = fresh regions,
pointers stored in memory as pointer cells, path forking on every comparison of symbolic addresses).  A Python driver
plays CBMC-style harness: it maps 2 (thorough: up to 3) pages of 0..4 bytes at SYMBOLIC 64-bit addresses with symbolic
permission bits and arbitrary initial contents, optionally a memory breakpoint with symbolic range and kind, and then
runs a short script of operations with symbolic addresses and values (typed emulated reads/writes of 8/16/32/64 bits,
host reads/writes, is_mapped, check_memory_breakpoint, reset_memory_access), in both byte orders.  The oracle is an SMT
byte map built from the same symbolic inputs; z3 decides on every path and for every input:

  * a mapping overlapping an existing page is refused (is_mpn_in_tab), an accepted one overlaps nothing;
  * an emulated access faults (EXCEPT_ACCESS_VIOL) iff some byte it touches is unmapped or lacks the permission, and then
    memory is unchanged; otherwise a read returns the bytes last written in the configured byte order and a write
    stores exactly its bytes;
  * host writes / reads succeed iff every byte is mapped, and transfer exactly those bytes;
  * EXCEPT_BREAKPOINT_MEMORY is raised (after check_memory_breakpoint) iff an access of the breakpoint's kind recorded
    since the last reset overlaps it;
  * the recorded read / write ranges cover exactly the bytes accessed since the last reset.
"""
import os
import shutil
import subprocess
import sysconfig
import tempfile

from vf import common

PROP = 'C24'
LEVEL = 'other'
JITTER = '/repo/miasm/jitter'
CLANG = 'clang-14'
CFLAGS = ['-O1', '-fno-vectorize', '-fno-slp-vectorize', '-fno-discard-value-names', '-Wno-everything']

PAGE_READ, PAGE_WRITE = 1, 2
BP_READ, BP_WRITE = 1, 2
EXCEPT_ACCESS_VIOL = (1 << 14) | (1 << 25)
EXCEPT_BREAKPOINT_MEMORY = 1 << 10
LITTLE, BIG = 1234, 4321

META = dict(
    functions=["miasm/jitter/vm_mngr.c (LLVM IR of the current source): init_memory_page_pool / init_memory_breakpoint / "
               "init_code_bloc_pool / memory_access_list_init / _add / _reset", "create_memory_page_node / is_mpn_in_tab / "
               "add_memory_page / find_page_node / get_memory_page_from_address", "memory_page_read / memory_page_write / "
               "vm_MEM_LOOKUP_08..64 / vm_MEM_WRITE_08..64 / set_endian16/32/64", "vm_write_mem / vm_read_mem / is_mapped",
               "add_memory_breakpoint / check_memory_breakpoint / add_mem_read / add_mem_write / add_range_to_list / "
               "reset_memory_access"],
    stubs=["malloc / realloc / free / strlen / strcpy / memcpy / memmove: modelled by vf/llsym.py (allocation never fails; "
           "fresh memory holds arbitrary bytes; use after free, double free and out-of-bounds accesses are violations)",
           "fprintf(stderr) and PyErr_SetString: no effect"],
    bounds=dict(quick=dict(pages="2 (one 3-page task)", page_sizes="(2,2) (1,3) (0,2) (1,1,1)", scripts="18 (layout, byte order, "
                           "script) combinations, 1-3 operations each", query_timeout_s=20),
                thorough=dict(pages="2 and 3", page_sizes="(2,2) (4,4) (1,3) (0,2) (2,0) (3,1) (4,1); 3 pages: (2,2,2) (1,0,3) with 6 "
                              "scripts", scripts=17, byte_orders="both for typed accesses on (2,2) (4,4) (1,3)", query_timeout_s=60,
                              task_budget_s=600)),
    outside=["vm_mngr_py.c (CPython glue)", "remove_memory_page, code-block bookkeeping (add_code_bloc / check_invalid_code_blocs)",
             "more than 3 pages or pages larger than 4 bytes, scripts longer than 3 operations", "allocation failure paths",
             "pages, accesses and breakpoints that wrap around 2^64"],
    assumptions=["page k occupies [ad_k, ad_k + size_k) without wrapping; an access [A, A + n) and a breakpoint do not wrap either",
                 "breakpoints are installed before the accesses they watch", "after a host write that fails (some byte unmapped) "
                 "memory contents and read values are no longer compared on that path: the property only says that it fails",
                 "a failing host access also raises EXCEPT_ACCESS_VIOL (vm_mngr.c looks pages up with raise_exception=1)"],
    rule="history = page layout x byte order x operation script with symbolic addresses/values; obligations per path; non-trivial = "
         "path with a multi-byte access while at least two pages are mapped",
    explanation="Bounded model checking of the real C source through its LLVM IR: page addresses, permissions, contents, operation "
                "addresses and values are solver variables; the oracle byte map is an SMT term over the same variables.",
    trusted_base=["z3 5.1", "clang-14 front end and -O1 pipeline", "vf/llsym.py"],
)

QUICK = [
    ('le', (2, 2), ['W16', 'R16']), ('le', (2, 2), ['W32', 'R8']), ('le', (2, 2), ['W8', 'R32']),
    ('le', (2, 2), ['HW3', 'R16']), ('le', (2, 2), ['W16', 'HR3']),
    ('le', (2, 2), ['BP', 'W16', 'CHK']), ('le', (2, 2), ['BP', 'R16', 'CHK']),
    ('le', (2, 2), ['W32', 'W8', 'RANGES']), ('le', (2, 2), ['R32', 'R8', 'RANGES']), ('le', (2, 2), ['W16', 'RESET', 'W8', 'RANGES']),
    ('le', (2, 2), ['ISMAPPED3']),
    ('le', (1, 3), ['W16', 'R32']), ('le', (1, 3), ['HW2', 'HR4']), ('le', (0, 2), ['W16', 'R16']), ('le', (0, 2), ['ISMAPPED3']),
    ('be', (2, 2), ['W16', 'R16']), ('be', (2, 2), ['W32', 'R8']),
    ('le', (1, 1, 1), ['W32']),          # a write that crosses a tiny middle page: three pages touched by one access
]
SCRIPTS_T = [
    ['W32', 'R32'], ['W16', 'R64'], ['W64', 'R8'], ['W8', 'R16'], ['W16', 'W32', 'R16'],
    ['HW3', 'R32'], ['W32', 'HR3'], ['HW2', 'HR4'],
    ['BP', 'W16', 'CHK'], ['BP', 'R32', 'CHK'], ['BP', 'R16', 'RESET', 'CHK'],
    ['W64', 'W8', 'RANGES'], ['R64', 'R8', 'RANGES'], ['W32', 'RESET', 'W8', 'RANGES'], ['R16', 'W16', 'RANGES'],
    ['ISMAPPED3'], ['ISMAPPED1'],
]
SIZES_T = [(4, 4), (1, 3), (0, 2), (2, 0), (3, 1), (4, 1)]
THREE_PAGES = [((2, 2, 2), ['W32', 'R16']), ((2, 2, 2), ['W16', 'R32']), ((1, 0, 3), ['W32', 'R8']), ((2, 2, 2), ['HW4', 'HR4']),
               ((1, 0, 3), ['ISMAPPED3']), ((2, 2, 2), ['R32', 'R8', 'RANGES'])]
TASK_BUDGET_S = dict(quick=240, thorough=600)


def tasks(tier, seed):
    ts = []
    if tier == 'quick':
        combos = QUICK
    else:
        combos = list(QUICK)
        for sz in SIZES_T:
            for si, sc in enumerate(SCRIPTS_T):
                typed = any(o[0] in 'WR' and o[1:] in ('16', '32', '64') for o in sc)
                # big endian: typed scripts, on the first two layouts only (byte order does not interact with the layout)
                for sex in (('le', 'be') if typed and sz in SIZES_T[:2] else ('le',)):
                    if (sex, sz, sc) not in combos:
                        combos.append((sex, sz, sc))
        for sz, sc in THREE_PAGES:
            combos.append(('le', sz, sc))
    for sex, sz, sc in combos:
        ts.append(dict(id='%s:%s:%s' % (sex, 'x'.join(map(str, sz)), '-'.join(sc)), sex=sex, sizes=list(sz), script=sc,
                       tier=tier, cost=sum(int(o[1:]) // 8 if o[0] in 'WR' and o[1:].isdigit() else 1 for o in sc) + 2 * len(sz)))
    return ts


def twins(tier):
    return [dict(id='twin:oracle-ignores-write-permission', sex='le', sizes=[2, 2], script=['W16', 'R16'], tier=tier,
                 bug='no_write_perm')]


_MOD = {}


def module():
    """LLVM IR of the current vm_mngr.c (compiled once per process)"""
    from vf import llsym
    if 'm' not in _MOD:
        d = tempfile.mkdtemp(prefix='c24_')
        try:
            out = os.path.join(d, 'vm.ll')
            inc = sysconfig.get_paths()['include']
            p = subprocess.run([CLANG] + CFLAGS + ['-S', '-emit-llvm', '-I', JITTER, '-I', inc, os.path.join(JITTER, 'vm_mngr.c'),
                                                   '-o', out], capture_output=True, text=True)
            if p.returncode != 0:
                raise RuntimeError("clang failed on vm_mngr.c: %s" % p.stderr[:500])
            _MOD['m'] = llsym.Module(open(out).read())
        finally:
            shutil.rmtree(d, ignore_errors=True)
    return _MOD['m']


class Run(object):
    """One path: real state (llsym memory) + oracle state (z3 terms)."""

    def __init__(self, eng, task):
        import z3
        from vf import llsym
        self.z3 = z3
        self.ll = llsym
        self.eng = eng
        self.task = task
        self.bug = task.get('bug')
        self.mod = module()
        self.it = llsym.Interp(self.mod, eng, {'PyErr_SetString': lambda it, a: None}, max_steps=200000)
        self.it.defer_ub = True
        self.big = task['sex'] == 'be'
        self.log = []
        self.pages = []          # dict(ad, size, access, data region, exp=[z3 bytes])
        self.obs = []
        self.bps = []            # dict(ad, size, access)
        self.reads = []          # (A, n) since last reset
        self.writes = []
        self.viol = z3.BoolVal(False)       # expected EXCEPT_ACCESS_VIOL
        self.bp_raised = z3.BoolVal(False)  # expected EXCEPT_BREAKPOINT_MEMORY so far (sticky)
        self.mem_known = True
        self.straddle = False
        self.vmty = ('named', 'struct.vm_mngr_t')
        self.vm = self.it.new_region(self.mod.sizeof(self.vmty), zero=True, tag='vm')
        self.name = self.it.new_region(2, zero=True, tag='name')
        self.it.mem[self.name.region][0] = z3.BitVecVal(ord('p'), 8)
        self.set_field(0, z3.BitVecVal(BIG if self.big else LITTLE, 32))
        for f in ('init_memory_page_pool', 'init_memory_breakpoint', 'init_code_bloc_pool'):
            self.it.call(f, [self.vm])

    # ---- obligations are collected and discharged with ONE query per path (split only when it fails)
    def ob(self, name, cond, extra):
        self.obs.append((name, cond, extra))

    def discharge(self):
        z3, eng = self.z3, self.eng
        obs, self.obs = self.obs, []
        if not obs:
            return
        r = eng.oblige('all-observations', z3.And(*[c for _, c, _ in obs]), dict(log=list(self.log)))
        eng.stats['obligations'] += len(obs) - 1
        if r is None:
            eng.stats['discharged'] += len(obs) - 1
            return
        if r == 'inconclusive':
            return
        eng.path_out.pop()
        eng.stats['obligations'] -= len(obs)
        eng.stats['violated'] -= 1
        for name, c, extra in obs:
            eng.oblige(name, c, extra)

    # ---- helpers on the real state
    def field_ptr(self, idx):
        off, ty = self.mod.field_offset(self.vmty, idx)
        return self.ll.Ptr(self.vm.region, off), ty

    def set_field(self, idx, bv):
        p, ty = self.field_ptr(idx)
        self.it.store(ty, self.ll.Val(bv), p)

    def get_field(self, idx):
        p, ty = self.field_ptr(idx)
        return self.it.load(ty, p)

    def sym(self, name, bits):
        z = self.z3.BitVec(name, bits)
        self.eng.inputs[name] = BVInput(z, bits)
        return z

    def val(self, bv):
        return self.ll.Val(bv)

    # ---- oracle predicates
    def in_page(self, pg, a):
        z3 = self.z3
        return z3.And(z3.ULE(pg['ad'], a), z3.ULT(a, pg['ad'] + pg['size']))

    def mapped(self, a):
        return self.z3.Or(*[self.in_page(pg, a) for pg in self.pages]) if self.pages else self.z3.BoolVal(False)

    def allowed(self, a, bit):
        z3 = self.z3
        if self.bug == 'no_write_perm' and bit == PAGE_WRITE:
            return self.mapped(a)
        return z3.Or(*[z3.And(self.in_page(pg, a), (pg['access'] & bit) != 0) for pg in self.pages]) if self.pages else z3.BoolVal(False)

    def byte_at(self, a):
        z3 = self.z3
        r = z3.BitVecVal(0, 8)
        for pg in self.pages:
            for j in range(pg['size']):
                r = z3.If(a == pg['ad'] + j, pg['exp'][j], r)
        return r

    def put_bytes(self, cond, a, bs):
        z3 = self.z3
        for pg in self.pages:
            for j in range(pg['size']):
                e = pg['exp'][j]
                for i, b in enumerate(bs):
                    e = z3.If(z3.And(cond, a + i == pg['ad'] + j), b, e)
                pg['exp'][j] = z3.simplify(e)

    def order(self, v, n):
        """value -> list of n bytes in memory order"""
        z3 = self.z3
        bs = [z3.Extract(8 * i + 7, 8 * i, v) for i in range(n)]
        return bs[::-1] if self.big else bs

    def unorder(self, bs):
        z3 = self.z3
        bs = bs[::-1] if self.big else bs
        return bs[0] if len(bs) == 1 else z3.Concat(*reversed(bs))

    # ---- steps
    def add_page(self, k, size):
        z3, eng = self.z3, self.eng
        ad = self.sym('ad%d' % k, 64)
        acc = self.sym('acc%d' % k, 3)
        eng.assume(z3.ULE(ad, z3.BitVecVal((1 << 64) - 1 - size - 8, 64)))
        acc64 = z3.ZeroExt(29, acc)
        mpn = self.it.call('create_memory_page_node', [self.val(ad), self.val(z3.BitVecVal(size, 64)), self.val(acc64), self.name])
        refused = self.it.call('is_mpn_in_tab', [self.vm, mpn])
        r = z3.simplify(refused.bv)
        assert z3.is_bv_value(r)
        new = dict(ad=ad, size=size, access=z3.ZeroExt(61, acc))
        overlap = z3.Or(*[z3.And(z3.ULT(pg['ad'], ad + size), z3.ULT(ad, pg['ad'] + pg['size'])) for pg in self.pages]) \
            if self.pages else z3.BoolVal(False)
        self.log.append("add_memory_page(ad%d, size=%d, access=acc%d) -> %s" % (k, size, k, 'refused' if r.as_long() else 'mapped'))
        if r.as_long():
            # refusing is always allowed by the property (it only demands that OVERLAPPING mappings are refused); nothing to prove
            return
        self.ob('accepted-mapping-overlaps-nothing', z3.Not(overlap), dict(log=list(self.log)))
        self.it.call('add_memory_page', [self.vm, mpn])
        hp = self.it.load(('ptr', None), self.ll.Ptr(mpn.region, 24))
        data = self.it.mem[hp.region]
        new['region'] = hp.region
        new['exp'] = [self.sym('p%d_b%d' % (k, j), 8) for j in range(size)]
        for j in range(size):
            data[j] = new['exp'][j]
        self.pages.append(new)

    def access_flags(self):
        return self.get_field(7).bv

    def op(self, k, code):
        z3, eng = self.z3, self.eng
        kind, arg = code[0], code[1:]
        if code == 'BP':
            ad = self.sym('bp_ad', 64)
            size = self.sym('bp_size', 3)
            acc = self.sym('bp_acc', 2)
            eng.assume(z3.ULE(ad, z3.BitVecVal((1 << 64) - 32, 64)))
            self.it.call('add_memory_breakpoint', [self.vm, self.val(ad), self.val(z3.ZeroExt(61, size)), self.val(z3.ZeroExt(30, acc))])
            self.bps.append(dict(ad=ad, size=z3.ZeroExt(61, size), access=acc))
            self.log.append("add_memory_breakpoint(bp_ad, bp_size, bp_acc)")
            return
        if code == 'CHK':
            self.it.call('check_memory_breakpoint', [self.vm])
            self.log.append("check_memory_breakpoint()")
            hit = [self.bp_raised]
            for bp in self.bps:
                for (a, n) in self.reads:
                    hit.append(z3.And((bp['access'] & BP_READ) != 0, z3.ULT(bp['ad'], a + n), z3.ULT(a, bp['ad'] + bp['size'])))
                for (a, n) in self.writes:
                    hit.append(z3.And((bp['access'] & BP_WRITE) != 0, z3.ULT(bp['ad'], a + n), z3.ULT(a, bp['ad'] + bp['size'])))
            want = z3.Or(*hit)
            self.bp_raised = want          # the flag is sticky: reset_memory_access() forgets the ranges, not the exception
            got = (self.access_flags() & EXCEPT_BREAKPOINT_MEMORY) != 0
            self.ob('breakpoint-iff-overlap', got == want, dict(log=list(self.log)))
            return
        if code == 'RESET':
            self.it.call('reset_memory_access', [self.vm])
            self.reads, self.writes = [], []
            self.log.append("reset_memory_access()")
            return
        if code == 'RANGES':
            x = z3.BitVec('any_address', 64)
            for which, idx, exp in (('read', 10, self.reads), ('write', 11, self.writes)):
                p, ty = self.field_ptr(idx)
                arr = self.it.load(('ptr', None), p)
                num = z3.simplify(self.it.load(('i', 64), self.ll.Ptr(p.region, p.off + 16)).bv)
                assert z3.is_bv_value(num)
                got = []
                for i in range(num.as_long()):
                    st = self.it.load(('i', 64), self.ll.Ptr(arr.region, 16 * i)).bv
                    sp = self.it.load(('i', 64), self.ll.Ptr(arr.region, 16 * i + 8)).bv
                    got.append(z3.And(z3.ULE(st, x), z3.ULT(x, sp)))
                want = [z3.And(z3.ULE(a, x), z3.ULT(x, a + n)) for a, n in exp]
                self.ob('recorded-%s-ranges-are-the-bytes-accessed' % which,
                           (z3.Or(*got) if got else z3.BoolVal(False)) == (z3.Or(*want) if want else z3.BoolVal(False)),
                           dict(log=list(self.log)))
            self.log.append("(recorded ranges compared)")
            return
        a = self.sym('A%d' % k, 64)
        eng.assume(z3.ULE(a, z3.BitVecVal((1 << 64) - 16, 64)))
        if kind in 'WR':
            bits = int(arg)
            n = bits // 8
            addrs = [a + i for i in range(n)]
            # an access whose first byte lies in a breakpoint of its kind raises the exception at once (when the access reaches
            # the breakpoint test: first page mapped with the needed permission); it overlaps the breakpoint in any case
            need = BP_WRITE if kind == 'W' else BP_READ
            perm = PAGE_WRITE if kind == 'W' else PAGE_READ
            for bp in self.bps:
                self.bp_raised = z3.Or(self.bp_raised, z3.And((bp['access'] & need) != 0, self.allowed(a, perm),
                                                              z3.ULE(bp['ad'], a), z3.ULT(a, bp['ad'] + bp['size'])))
            if kind == 'W':
                v = self.sym('V%d' % k, bits)
                ok = z3.And(*[self.allowed(x, PAGE_WRITE) for x in addrs])
                self.it.call('vm_MEM_WRITE_%02d' % bits, [self.vm, self.val(a), self.val(v)])
                self.log.append("vm_MEM_WRITE_%02d(A%d, V%d)" % (bits, k, k))
                self.writes.append((a, n))
                self.put_bytes(ok, a, self.order(v, n))
            else:
                ok = z3.And(*[self.allowed(x, PAGE_READ) for x in addrs])
                want = self.unorder([self.byte_at(x) for x in addrs])
                got = self.it.call('vm_MEM_LOOKUP_%02d' % bits, [self.vm, self.val(a)])
                self.log.append("vm_MEM_LOOKUP_%02d(A%d)" % (bits, k))
                self.reads.append((a, n))
                if self.mem_known:
                    self.ob('read-returns-last-written-bytes', z3.Implies(ok, got.bv == want), dict(log=list(self.log)))
            self.viol = z3.Or(self.viol, z3.Not(ok))
            if n > 1 and not self.straddle:
                self.straddle = True
            return
        if kind == 'H':
            n = int(arg[1:])
            addrs = [a + i for i in range(n)]
            ok = z3.And(*[self.mapped(x) for x in addrs])
            if arg[0] == 'W':
                buf = self.it.new_region(n, tag='hostbuf')
                bs = [self.sym('H%d_%d' % (k, i), 8) for i in range(n)]
                self.it.mem[buf.region][:] = bs
                r = self.it.call('vm_write_mem', [self.vm, self.val(a), buf, self.val(z3.BitVecVal(n, 64))])
                self.log.append("vm_write_mem(A%d, %d bytes)" % (k, n))
                self.ob('host-write-succeeds-iff-mapped', (r.bv == 0) == ok, dict(log=list(self.log)))
                self.viol = z3.Or(self.viol, z3.Not(ok))      # a failing host access raises EXCEPT_ACCESS_VIOL as well
                rr = z3.simplify(r.bv)
                if z3.is_bv_value(rr) and rr.as_long() == 0:
                    self.put_bytes(z3.BoolVal(True), a, bs)
                else:
                    self.mem_known = False
            else:
                holder = self.it.new_region(8, zero=True, tag='bufptr')
                r = self.it.call('vm_read_mem', [self.vm, self.val(a), holder, self.val(z3.BitVecVal(n, 64))])
                self.log.append("vm_read_mem(A%d, %d bytes)" % (k, n))
                self.ob('host-read-succeeds-iff-mapped', (r.bv == 0) == ok, dict(log=list(self.log)))
                self.viol = z3.Or(self.viol, z3.Not(ok))
                rr = z3.simplify(r.bv)
                if z3.is_bv_value(rr) and rr.as_long() == 0 and self.mem_known:
                    bp_ = self.it.load(('ptr', None), holder)
                    got = self.it.mem[bp_.region][:n]
                    self.ob('host-read-returns-the-bytes', z3.And(*[g == self.byte_at(x) for g, x in zip(got, addrs)]),
                               dict(log=list(self.log)))
            return
        if code.startswith('ISMAPPED'):
            n = int(code[len('ISMAPPED'):])
            ok = z3.And(*[self.mapped(a + i) for i in range(n)])
            r = self.it.call('is_mapped', [self.vm, self.val(a), self.val(z3.BitVecVal(n, 64))])
            self.log.append("is_mapped(A%d, %d)" % (k, n))
            self.ob('is-mapped-iff-every-byte-mapped', (r.bv != 0) == ok, dict(log=list(self.log)))
            return
        raise ValueError(code)

    def final(self):
        z3, eng = self.z3, self.eng
        self.it.flush_ub()
        got = (self.access_flags() & (1 << 14)) != 0
        self.ob('fault-iff-unmapped-or-forbidden', got == self.viol, dict(log=list(self.log)))
        if self.mem_known:
            conds = []
            for pg in self.pages:
                data = self.it.mem[pg['region']]
                for j in range(pg['size']):
                    conds.append(data[j] == pg['exp'][j])
            if conds:
                self.ob('memory-equals-byte-map', z3.And(*conds), dict(log=list(self.log)))
        self.discharge()


class BVInput(object):
    def __init__(self, z, size):
        self.z, self.w, self.lo, self.hi = z, size, 0, (1 << size) - 1


def run_script(eng, task):
    from vf import llsym
    from vf.symx import Inconclusive
    try:
        r = Run(eng, task)
        for k, size in enumerate(task['sizes']):
            r.add_page(k, size)
        for k, code in enumerate(task['script']):
            r.op(k, code)
        r.final()
    except llsym.Abort as ex:
        r.it.flush_ub()
        r.discharge()
        eng.fail('no-abort', dict(what="vm_mngr.c aborts: %s" % ex, log=list(r.log) if 'r' in dir() else []))
    except llsym.Unsupported as ex:
        raise Inconclusive("llsym: %s" % ex)
    return r


def run_task(task):
    import time
    from vf.symx import Engine
    res = common.new_result(task)
    b = META['bounds'][task['tier']]
    eng = Engine(timeout_ms=b['query_timeout_s'] * 1000, max_paths=20000)
    eng.deadline = time.time() + TASK_BUDGET_S[task['tier']]
    eng.on_path_end = common.make_known_attributor(common.load_known(PROP), task['id'])
    nontriv = [0]

    def fn(eng):
        r = run_script(eng, task)
        if r.straddle and len(r.pages) >= 2:
            nontriv[0] += 1
    recs = eng.explore(fn)
    common.absorb_engine(res, eng, recs, task['id'])
    for v in res['violations']:
        v['task_desc'] = dict(sex=task['sex'], sizes=task['sizes'], script=task['script'])
    res['nontrivial'] = nontriv[0]
    res['samples'] = ["%s-endian, pages of %s bytes at symbolic addresses, script %s: %d paths" % (
        task['sex'], task['sizes'], task['script'], eng.stats['paths'])]
    return res


# ------------------------------------------------------------------------------------------------ native replay

def replay(w):
    """Replay natively: a C driver with the witness's concrete values is compiled together with the current vm_mngr.c
    (ASan + UBSan) and its observations are compared with a plain Python byte map."""
    t = w['task_desc']
    inp = w.get('inputs', {})
    g = lambda n, bits: inp.get(n, 0) & ((1 << bits) - 1)
    lines = ['#include <stdio.h>', '#include <stdlib.h>', '#include <string.h>', '#include <inttypes.h>', '#include "vm_mngr.h"',
             'void PyErr_SetString(PyObject *t, const char *m) {}', 'PyObject *PyExc_RuntimeError = 0;',
             'PyObject *PyList_New(Py_ssize_t n) { return 0; }', 'PyObject *PyTuple_New(Py_ssize_t n) { return 0; }',
             'PyObject *PyLong_FromUnsignedLongLong(unsigned long long v) { return 0; }',
             'int PyTuple_SetItem(PyObject *a, Py_ssize_t i, PyObject *o) { return 0; }',
             'int PyList_SetItem(PyObject *a, Py_ssize_t i, PyObject *o) { return 0; }',
             '#define OUT(...) fprintf(stderr, __VA_ARGS__)',
             'static void dumpmem(vm_mngr_t *vm) { int i; size_t j; for (i = 0; i < vm->memory_pages_number; i++) { struct '
             'memory_page_node *p = &vm->memory_pages_array[i]; for (j = 0; j < p->size; j++) OUT("MEM %" PRIu64 " %u\\n", '
             'p->ad + j, ((unsigned char*)p->ad_hp)[j]); } }',
             'static void dumpranges(const char *n, struct memory_access_list *l) { size_t i; for (i = 0; i < l->num; i++) '
             'OUT("%s %" PRIu64 " %" PRIu64 "\\n", n, l->array[i].start, l->array[i].stop); }',
             'int main(void) { vm_mngr_t vm; struct memory_page_node *p; int r; memset(&vm, 0, sizeof vm); vm.sex = %s;'
             % ('__BIG_ENDIAN' if t['sex'] == 'be' else '__LITTLE_ENDIAN'),
             'init_memory_page_pool(&vm); init_memory_breakpoint(&vm); init_code_bloc_pool(&vm);']
    # python model
    pages = []
    mem = {}
    perm = {}
    for k, size in enumerate(t['sizes']):
        ad, acc = g('ad%d' % k, 64), g('acc%d' % k, 3)
        lines.append('p = create_memory_page_node(%dULL, %d, %d, "p"); r = is_mpn_in_tab(&vm, p); OUT("MAP %d %%d\\n", r);' % (ad, size, acc, k))
        init = ", ".join(str(g('p%d_b%d' % (k, j), 8)) for j in range(size))
        lines.append('if (!r) { unsigned char init[] = {%s}; memcpy(p->ad_hp, init, %d); add_memory_page(&vm, p); }' % (init or '0', size))
        pages.append((k, ad, size, acc))
    lines_ops = []
    for k, code in enumerate(t['script']):
        a = g('A%d' % k, 64)
        if code == 'BP':
            lines_ops.append('add_memory_breakpoint(&vm, %dULL, %dULL, %d);' % (g('bp_ad', 64), g('bp_size', 3), g('bp_acc', 2)))
        elif code == 'CHK':
            lines_ops.append('check_memory_breakpoint(&vm); OUT("BPFLAG %d\\n", (int)((vm.exception_flags >> 10) & 1));')
        elif code == 'RESET':
            lines_ops.append('reset_memory_access(&vm);')
        elif code == 'RANGES':
            lines_ops.append('dumpranges("RRANGE", &vm.memory_r); dumpranges("WRANGE", &vm.memory_w);')
        elif code[0] == 'W':
            lines_ops.append('vm_MEM_WRITE_%02d(&vm, %dULL, %dULL);' % (int(code[1:]), a, g('V%d' % k, int(code[1:]))))
        elif code[0] == 'R':
            lines_ops.append('OUT("READ %d %%" PRIu64 "\\n", (uint64_t)vm_MEM_LOOKUP_%02d(&vm, %dULL));' % (k, int(code[1:]), a))
        elif code[:2] == 'HW':
            n = int(code[2:])
            lines_ops.append('{ char b[] = {%s}; OUT("HW %d %%d\\n", vm_write_mem(&vm, %dULL, b, %d)); }' % (
                ", ".join(str(g('H%d_%d' % (k, i), 8)) for i in range(n)), k, a, n))
        elif code[:2] == 'HR':
            n = int(code[2:])
            lines_ops.append('{ char *b = 0; int i, rr = vm_read_mem(&vm, %dULL, &b, %d); OUT("HR %d %%d", rr); if (!rr) for (i = 0; i < %d; '
                             'i++) OUT(" %%u", (unsigned char)b[i]); OUT("\\n"); }' % (a, n, k, n))
        elif code.startswith('ISMAPPED'):
            lines_ops.append('OUT("ISMAPPED %d %%d\\n", is_mapped(&vm, %dULL, %d));' % (k, a, int(code[8:])))
    lines += lines_ops
    lines.append('OUT("VIOL %d\\n", (int)((vm.exception_flags >> 14) & 1)); dumpmem(&vm); return 0; }')
    d = tempfile.mkdtemp(prefix='c24r_')
    try:
        cfile = os.path.join(d, 'r.c')
        open(cfile, 'w').write("\n".join(lines) + "\n")
        exe = os.path.join(d, 'r')
        inc = sysconfig.get_paths()['include']
        p = subprocess.run([CLANG, '-O1', '-Wno-everything', '-fsanitize=address,undefined', '-fno-sanitize-recover=all', '-I', JITTER,
                            '-I', inc, cfile, os.path.join(JITTER, 'vm_mngr.c'), '-o', exe],
                           capture_output=True, text=True)
        if p.returncode != 0:
            return False, "replay build failed: %s" % p.stderr[:400]
        try:
            q = subprocess.run([exe], capture_output=True, text=True, timeout=30, env=dict(os.environ, ASAN_OPTIONS='detect_leaks=0'))
        except subprocess.TimeoutExpired:
            return True, "native run of %s does not terminate" % t
    finally:
        shutil.rmtree(d, ignore_errors=True)
    out = [l.split() for l in q.stderr.split('\n') if l and l.split()[0] in (
        'MAP', 'MEM', 'READ', 'HW', 'HR', 'ISMAPPED', 'VIOL', 'BPFLAG', 'RRANGE', 'WRANGE')]
    desc = "%s-endian, pages %s, script %s, inputs %s" % (t['sex'], [(hex(a), s, acc) for _, a, s, acc in pages], t['script'],
                                                          {k: hex(v & ((1 << 64) - 1)) for k, v in sorted(inp.items()) if not k.startswith('p')})
    if q.returncode != 0:
        return True, "%s: the native run fails: %s" % (desc, [l for l in q.stderr.split('\n') if 'ERROR' in l or 'error' in l][:2])
    problems = model_check(t, inp, out)
    if problems:
        return True, "%s: %s" % (desc, "; ".join(problems[:3]))
    return False, "%s: native run agrees with the byte map" % desc


def model_check(t, inp, out):
    """Plain Python byte map vs the native observations."""
    g = lambda n, bits: inp.get(n, 0) & ((1 << bits) - 1)
    M = (1 << 64) - 1
    problems = []
    mem, perm = {}, {}
    maps = {int(l[1]): int(l[2]) for l in out if l[0] == 'MAP'}
    for k, size in enumerate(t['sizes']):
        ad, acc = g('ad%d' % k, 64), g('acc%d' % k, 3)
        overlap = any((ad + j) & M in mem for j in range(size))
        if overlap and not maps.get(k):
            problems.append("page %d overlaps an existing page and was mapped" % k)
        if maps.get(k):
            continue
        for j in range(size):
            mem[(ad + j) & M] = g('p%d_b%d' % (k, j), 8)
            perm[(ad + j) & M] = acc
    viol = False
    reads, writes = [], []
    known = True
    obs = {(l[0], int(l[1])): l[2:] for l in out if l[0] in ('READ', 'HW', 'HR', 'ISMAPPED')}
    big = t['sex'] == 'be'
    bp = None
    raised = False
    for k, code in enumerate(t['script']):
        a = g('A%d' % k, 64)
        if code == 'BP':
            bp = (g('bp_ad', 64), g('bp_size', 3), g('bp_acc', 2))
        elif code == 'CHK':
            want = raised
            if bp:
                for (x, n) in reads:
                    want |= bool(bp[2] & 1) and bp[0] < x + n and x < bp[0] + bp[1]
                for (x, n) in writes:
                    want |= bool(bp[2] & 2) and bp[0] < x + n and x < bp[0] + bp[1]
            raised = want
            got = [int(l[1]) for l in out if l[0] == 'BPFLAG']
            if got and bool(got[-1]) != want:
                problems.append("breakpoint flag %d, accesses overlap the breakpoint: %s" % (got[-1], want))
        elif code == 'RESET':
            reads, writes = [], []
        elif code == 'RANGES':
            for nm, exp in (('RRANGE', reads), ('WRANGE', writes)):
                got = set()
                for l in out:
                    if l[0] == nm:
                        got |= set(range(int(l[1]), min(int(l[2]), int(l[1]) + 64)))
                want = set()
                for (x, n) in exp:
                    want |= set(range(x, x + n))
                if got != want:
                    problems.append("%s recorded %s, accessed %s" % (nm, sorted(got)[:12], sorted(want)[:12]))
        elif code[0] in 'WR':
            n = int(code[1:]) // 8
            addrs = [(a + i) & M for i in range(n)]
            need = 2 if code[0] == 'W' else 1
            ok = all(x in mem and perm[x] & need for x in addrs)
            if bp and (bp[2] & need) and a in mem and (perm[a] & need) and bp[0] <= a < bp[0] + bp[1]:
                raised = True
            if code[0] == 'W':
                writes.append((a, n))
                v = g('V%d' % k, 8 * n)
                bs = [(v >> (8 * i)) & 0xff for i in range(n)]
                if big:
                    bs = bs[::-1]
                if ok:
                    for x, b_ in zip(addrs, bs):
                        mem[x] = b_
            else:
                reads.append((a, n))
                if ok and known:
                    bs = [mem[x] for x in addrs]
                    if big:
                        bs = bs[::-1]
                    want = sum(b_ << (8 * i) for i, b_ in enumerate(bs))
                    got = int(obs[('READ', k)][0])
                    if got != want:
                        problems.append("read %d returned 0x%x, the bytes last written give 0x%x" % (k, got, want))
            viol |= not ok
        elif code[:2] == 'HW':
            n = int(code[2:])
            addrs = [(a + i) & M for i in range(n)]
            ok = all(x in mem for x in addrs)
            got = int(obs[('HW', k)][0])
            if (got == 0) != ok:
                problems.append("host write %d returned %d, all bytes mapped: %s" % (k, got, ok))
            if got == 0 and ok:
                for i, x in enumerate(addrs):
                    mem[x] = g('H%d_%d' % (k, i), 8)
            elif got != 0:
                known = False
            viol |= not ok
        elif code[:2] == 'HR':
            n = int(code[2:])
            addrs = [(a + i) & M for i in range(n)]
            ok = all(x in mem for x in addrs)
            o = obs[('HR', k)]
            if (int(o[0]) == 0) != ok:
                problems.append("host read %d returned %s, all bytes mapped: %s" % (k, o[0], ok))
            elif ok and known and [int(x) for x in o[1:]] != [mem[x] for x in addrs]:
                problems.append("host read %d returned bytes %s, expected %s" % (k, o[1:], [mem[x] for x in addrs]))
            viol |= not ok
        elif code.startswith('ISMAPPED'):
            n = int(code[8:])
            ok = all(((a + i) & M) in mem for i in range(n))
            if bool(int(obs[('ISMAPPED', k)][0])) != ok:
                problems.append("is_mapped %d returned %s, all bytes mapped: %s" % (k, obs[('ISMAPPED', k)][0], ok))
    gotv = [int(l[1]) for l in out if l[0] == 'VIOL']
    if gotv and bool(gotv[-1]) != viol:
        problems.append("EXCEPT_ACCESS_VIOL is %d, expected %d" % (gotv[-1], viol))
    if known:
        gotmem = {int(l[1]): int(l[2]) for l in out if l[0] == 'MEM'}
        diff = [(hex(x), gotmem.get(x), mem.get(x)) for x in sorted(set(gotmem) | set(mem)) if gotmem.get(x) != mem.get(x)]
        if diff:
            problems.append("memory differs from the byte map at %s (address, real, expected)" % diff[:4])
    return problems


if __name__ == '__main__':
    from vf.props import c24
    common.main(c24)
