"""C07 -- Python-source and expression-source translations are faithful.

First half (solver): the Python source emitted by the real TranslatorPython is EXECUTED SYMBOLICALLY (eval with
identifiers bound to proxy ints, `memory` bound to an uninterpreted read); z3 decides result == refsem(e) for all
operand values.  Second half (TranslatorMiasm round trip) has no arithmetic: it is run concretely on the same
shapes plus a pool of awkward identifier names and reported separately (not part of the solver claim).
"""
from vf import common, trharness as T

PROP = 'C07'
LEVEL = 'translation_validation'
CHUNK = 12
PY_BIN = ['+', '-', '*', '&', '^', '|', '<<', '>>', '<<<', '>>>', '/', '%']

META = dict(
    functions=["miasm.ir.translators.python.TranslatorPython.from_expr / from_ExprOp / from_ExprSlice / from_ExprCompose / "
               "from_ExprCond / from_ExprMem / from_ExprInt / from_ExprId", "the emitted Python source itself (executed "
               "symbolically)", "miasm.ir.translators.miasm_ir.TranslatorMiasm.from_expr (concrete round trip)"],
    stubs=["`memory(addr, size)` of the emitted source bound to an uninterpreted function of (address, byte count); the "
           "reference reads memory through the same function"],
    bounds=dict(quick=dict(widths=[3, 8, 13, 32, 64], depth2_widths=[8, 32], depth2_fraction=0.3, max_div_width=16,
                           max_mul_width=32, query_timeout_s=15),
                thorough=dict(widths=[1, 3, 8, 13, 16, 32, 64], depth2_widths=[8, 32], depth2_fraction=1.0, max_div_width=16,
                              max_mul_width=32, query_timeout_s=60)),
    outside=["shift counts above 600 (engine cap: Python would build a huge integer); operators the translator rejects "
             "(NotImplementedError)", "parity of operands narrower than 8 bits", "ExprLoc", "identifier names that are not "
             "Python identifiers (first half)"],
    assumptions=["division by zero excluded (ZeroDivisionError paths end the run)", "identifier values range over [0, 2^w)"],
    rule="shape = expression over identifiers; the emitted source is evaluated once per path of the proxy execution; "
         "non-trivial = path reaching the value obligation",
    explanation="Translation validation by symbolic execution of the emitted program: eval(TranslatorPython(e)) is run on "
                "proxy ints; z3 proves the Python value equals the reference bit-vector value (and lies in [0, 2^size)) for "
                "all operand values; an exception escaping the emitted code is a violation.",
    trusted_base=["z3 5.1", "vf/refsem.py", "vf/symx.py", "vf/ceval.py (replay)"],
)

AWKWARD_NAMES = ["a'b", 'a"b', "a\\b", "a\\'b", "été", "a b", "", "x\ny", "%s", "{0}", "ExprId('z', 8)", "\x00"]


def all_shapes(tier, seed):
    b = META['bounds'][tier]
    return T.shapes(b['widths'], seed, PY_BIN, ['=='], ['-', 'parity'], ext=False, deep_widths=b['depth2_widths'],
                    max_div_width=b['max_div_width'], max_mul_width=b['max_mul_width'], max_sdiv_width=0,
                    deep_fraction=b['depth2_fraction'], ptr_widths=(32, 64))


def tasks(tier, seed):
    sh = all_shapes(tier, seed)
    b = META['bounds'][tier]
    ts = [dict(id='py:%05d' % i, shapes=sh[i:i + CHUNK], tier=tier, timeout_s=b['query_timeout_s'], kind='py')
          for i in range(0, len(sh), CHUNK)]
    ts.append(dict(id='construct:roundtrip', shapes=sh, tier=tier, kind='construct', cost=100))
    return ts


def twins(tier):
    return [dict(id='twin:mask', shapes=[('bin:+:w8', T.O('+', T.I('a', 8), T.I('b', 8)))], tier=tier, timeout_s=10,
                 kind='py', bug='no_mask')]


def py_source(e):
    """History used by check and replay alike: the construction translator runs first on the same expression
    (translators of different languages must not influence one another), then the Python translator."""
    from miasm.ir.translators.python import TranslatorPython
    from miasm.ir.translators.miasm_ir import TranslatorMiasm
    TranslatorMiasm().from_expr(e)
    return TranslatorPython().from_expr(e)


def construct_source(e):
    from miasm.ir.translators.python import TranslatorPython
    from miasm.ir.translators.miasm_ir import TranslatorMiasm
    try:
        TranslatorPython().from_expr(e)
    except NotImplementedError:
        pass
    return TranslatorMiasm().from_expr(e)


def id_set(e):
    names = set()

    def cb(x):
        if x.is_id():
            names.add((x.name, x.size))
        return x
    e.visit(cb)
    return sorted(names)


def run_task(task):
    if task['kind'] == 'construct':
        return run_construct(task)
    import z3
    from vf.symx import Engine, SymInt, lift
    from vf.refsem import Ref, bv_of_const
    res = common.new_result(task)
    known = common.load_known(PROP)
    bug = task.get('bug')
    for sid, src in task['shapes']:
        e = T.build(src)
        try:
            code = py_source(e)
        except NotImplementedError:
            continue
        except Exception as ex:
            res['obligations'] += 1
            res['violations'].append(dict(site=sid, ob='translates', src=src, exc="%s: %s" % (type(ex).__name__, ex)))
            continue
        if bug == 'no_mask':
            code = code.replace(" & 0xff)", ")")
        eng = Engine(timeout_ms=task['timeout_s'] * 1000, max_paths=400)
        eng.on_path_end = common.make_known_attributor(known, sid)
        ids = id_set(e)

        class MemRef(Ref):
            def read_mem(self, p, psize, size):
                p64 = z3.ZeroExt(64 - psize, p) if psize < 64 else p
                return self.uf('memory', [64], size)(p64) if False else _memuf(size)(p64)

        def _memuf(size):
            return z3.Function('memory_%d' % size, z3.BitVecSort(64), z3.BitVecSort(size))

        def fn(eng):
            env = {}
            for nm, sz in ids:
                env[nm] = eng.fresh_int('id_' + nm, 0, (1 << sz) - 1)

            def memory(addr, nbytes):
                nbytes = int(nbytes)
                a = lift(addr)
                t = _memuf(nbytes * 8)(bv_of_const(a, 64))
                return SymInt(z3.ZeroExt(1, t), nbytes * 8 + 1, 0, (1 << (nbytes * 8)) - 1)
            env['memory'] = memory
            try:
                r = eval(code, {'__builtins__': {}}, env)
            except ZeroDivisionError:
                return          # excluded: division by zero
            except Exception as ex:
                eng.fail('no-exception', dict(exc="%s: %s" % (type(ex).__name__, ex)))
                return
            ref = MemRef()
            ref.env = {(nm, sz): bv_of_const(env[nm], sz) for nm, sz in ids}
            want = ref.tr(e)
            r = lift(r)
            if r is None:
                eng.fail('is-int', dict(got=repr(r)[:80]))
                return
            eng.oblige('in-range', z3.And((r >= 0).z if not isinstance(r >= 0, bool) else z3.BoolVal(r >= 0),
                                          (r < (1 << e.size)).z if not isinstance(r < (1 << e.size), bool)
                                          else z3.BoolVal(r < (1 << e.size))))
            eng.oblige('value', bv_of_const(r, e.size) == want)
        recs = eng.explore(fn)
        common.absorb_engine(res, eng, recs, sid)
        for v in res['violations']:
            if v['site'] == sid and 'src' not in v:
                v['src'] = src
                v['code'] = code
        res['nontrivial'] += sum(1 for r in recs if r['status'] == 'ok' and r['obligations'])
    res['samples'].append("%s  =>  %s" % (task['shapes'][0][1], py_source(T.build(task['shapes'][0][1]))
                                          if task['shapes'] else ''))
    return res


def run_construct(task):
    """Concrete auxiliary check (not solver-decided): eval(TranslatorMiasm(e)) is e."""
    from miasm.ir.translators.miasm_ir import TranslatorMiasm
    import miasm.expression.expression as E
    res = common.new_result(task)
    env = T.mk_env()
    exprs = [(sid, T.build(src), src) for sid, src in task['shapes']]
    for i, nm in enumerate(AWKWARD_NAMES):
        src = "ExprOp('+', ExprId(%r, 32), ExprMem(ExprId(%r, 32), 32))" % (nm, nm + "_")
        exprs.append(('name:%d' % i, T.build(src), src))
    for sid, e, src in exprs:
        res['obligations'] += 1
        try:
            back = eval(construct_source(e), dict(env))
            ok = back == e and back is e
        except Exception as ex:
            ok = False
        if ok:
            res['discharged'] += 1
        else:
            res['violations'].append(dict(site=sid, ob='construct-roundtrip', src=src, inputs={}))
    res['paths'] = len(exprs)
    res['samples'].append("construction round trip on %d expressions (concrete, auxiliary)" % len(exprs))
    return res


def replay(w):
    from vf.ceval import ceval, Undefined
    e = T.build(w['src'])
    if w.get('ob') == 'construct-roundtrip':
        from miasm.ir.translators.miasm_ir import TranslatorMiasm
        try:
            back = eval(construct_source(e), T.mk_env())
        except Exception as ex:
            return True, "construction source of %r does not evaluate: %r" % (e, ex)
        return (back is not e), "rebuilt %r from %r" % (back, e)
    try:
        code = py_source(e)
    except Exception as ex:
        return True, "TranslatorPython raised %r" % (ex,)
    inp = w.get('inputs', {})
    env = {nm: inp.get('id_' + nm, 0) for nm, sz in id_set(e)}

    def mem(addr):
        return (addr * 2654435761 + 12345) >> 5 & 0xff

    def memory(addr, n):
        return sum(mem(addr + i) << (8 * i) for i in range(n))
    env['memory'] = memory
    try:
        want = ceval(e, env, mem)
    except Undefined:
        return False, "reference undefined"
    try:
        got = eval(code, {'__builtins__': {}}, dict(env))
    except Exception as ex:
        return True, "emitted source %s raised %s: %s under %r (expression %s = 0x%x)" % (code, type(ex).__name__, ex,
                                                                                         inp, e, want)
    return got != want, "%s emitted as %s: evaluates to %r, expression value 0x%x under %r" % (e, code, got, want, inp)


if __name__ == '__main__':
    from vf.props import c07
    common.main(c07)
