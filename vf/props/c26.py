"""C26 -- integer interval sets have exact set semantics.

miasm.core.interval is executed on interval lists whose every bound is a SYMBOLIC integer (paths = order
types of the bounds); a symbolic member x ties the result to the set-theoretic definition.
"""
from vf import common

PROP = 'C26'
LEVEL = 'other'
LO = -2
HIS = dict(quick=(1 << 10), thorough=(1 << 32))
HI = HIS['thorough']

META = dict(
    functions=["miasm.core.interval.interval.__init__/cannon/cannon_list", "cmp_interval", "union", "intersection",
               "difference", "__contains__ (element and interval)", "__eq__", "hull", "length", "empty"],
    stubs=[],
    bounds=dict(quick=dict(max_intervals_per_operand=2, operand_shapes='(1,1) (2,1) (1,2) (0,1) (1,0)', construction_up_to=3, bound_range=[LO, HIS['quick']], query_timeout_s=10),
                thorough=dict(max_intervals_per_operand=3, operand_shapes='(1,1) (2,1) (1,2) (2,2) (0,1) (1,0) (3,1) (1,3)', construction_up_to=4, bound_range=[LO, HI], query_timeout_s=30)),
    outside=["more intervals per operand than listed", "bounds outside [-2, 2^32] (paths depend on order type only)",
             "show() (PIL drawing)"],
    assumptions=["interval bounds are Python ints (unbounded); symbolic range [-2, 2^32] with member x in [-4, 2^32+2]"],
    rule="task = (operation, #intervals of A, #intervals of B); each path = one order type of the symbolic bounds; "
         "non-trivial = path reaching the membership obligation",
    explanation="Bounded symbolic verification: the real interval code runs on symbolic bounds; z3 proves for every path "
                "and every member x that x in result <=> set-theoretic combination, that results are canonical (sorted, "
                "disjoint, non-adjacent), that length/hull/==/inclusion agree with the set definitions.",
)

OPS2 = ['union', 'inter', 'diff', 'eq', 'incl']


def tasks(tier, seed):
    b = META['bounds'][tier]
    ts = []
    m = b['max_intervals_per_operand']
    for n in range(0, b['construction_up_to'] + 1):
        ts.append(dict(op='cannon', na=n, nb=0))
    shapes = [(1, 1), (2, 1), (1, 2), (0, 1), (1, 0)] if tier == 'quick' else \
        [(1, 1), (2, 1), (1, 2), (2, 2), (0, 1), (1, 0), (3, 1), (1, 3)]
    for op in OPS2:
        for na, nb in shapes:
            ts.append(dict(op=op, na=na, nb=nb))
    for n in range(0, m + 1):
        ts.append(dict(op='contains_elt', na=n, nb=0))
        ts.append(dict(op='hull_length', na=n, nb=0))
    for t in ts:
        t['id'] = "%s:%d:%d" % (t['op'], t['na'], t['nb'])
        t['tier'] = tier
        t['cost'] = (t['na'] + 1) ** 2 * (t['nb'] + 1) ** 2
    return ts


def twins(tier):
    return [dict(op='union', na=1, nb=1, id='twin:union-as-inter', tier=tier, bug='union_as_inter'),
            dict(op='cannon', na=2, nb=0, id='twin:adjacent-ok', tier=tier, bug='allow_adjacent')]


# ---- symbolic helpers
def zmem(ivs, x):
    import z3
    from vf.symx import lift, ext
    fs = []
    x = lift(x)
    for lo, hi in ivs:
        lo, hi = lift(lo), lift(hi)
        w = max(lo.w, hi.w, x.w)
        fs.append(z3.And(ext(lo.z, lo.w, w) <= ext(x.z, x.w, w), ext(x.z, x.w, w) <= ext(hi.z, hi.w, w)))
    return z3.Or(*fs) if fs else z3.BoolVal(False)


def zb(c):
    """SymBool / bool -> z3 Bool"""
    import z3
    from vf.symx import SymBool
    if isinstance(c, SymBool):
        return c.z
    return z3.BoolVal(bool(c))


def zcanonical(ivs, strict=True):
    import z3
    cs = []
    prev = None
    for lo, hi in ivs:
        cs.append(zb(lo <= hi))
        if prev is not None:
            cs.append(zb(prev + 1 < lo) if strict else zb(prev < lo))
        prev = hi
    return z3.And(*cs) if cs else z3.BoolVal(True)


def run_task(task):
    import z3
    from vf.symx import Engine, lift
    from miasm.core.interval import interval
    res = common.new_result(task)
    tmo = META['bounds'][task['tier']]['query_timeout_s']
    eng = Engine(timeout_ms=tmo * 1000, max_paths=60000)
    import time
    eng.deadline = time.time() + (240 if task['tier'] == 'quick' else 1500)
    eng.on_path_end = common.make_known_attributor(common.load_known(PROP), task['id'])
    bug = task.get('bug')
    op, na, nb = task['op'], task['na'], task['nb']

    HI = HIS[task['tier']]

    def fn(eng):
        A = [(eng.fresh_int('a%d' % i, LO, HI), eng.fresh_int('A%d' % i, LO, HI)) for i in range(na)]
        B = [(eng.fresh_int('b%d' % i, LO, HI), eng.fresh_int('B%d' % i, LO, HI)) for i in range(nb)]
        x = eng.fresh_int('x', LO - 2, HI + 2)
        inA, inB = zmem(A, x), zmem(B, x)
        ia = interval(list(A))
        eng.oblige('construct-A-canonical', zcanonical(ia.intervals, strict=(bug != 'allow_adjacent') or True)
                   if bug != 'allow_adjacent' else z3.Not(zcanonical(ia.intervals)))
        eng.oblige('construct-A-members', zmem(ia.intervals, x) == inA)
        if op == 'cannon':
            return
        if op == 'contains_elt':
            got = (x in ia)
            eng.oblige('contains-element', zb(got) == inA)
            eng.oblige('empty', z3.BoolVal(bool(ia.empty)) == z3.BoolVal(len(ia.intervals) == 0))
            return
        if op == 'hull_length':
            h0, h1 = ia.hull()
            if h0 is None:
                eng.oblige('hull-empty', z3.Not(inA))
                eng.oblige('length-empty', zb(lift(ia.length) == 0))
            else:
                eng.oblige('hull', z3.And(zmem(A, h0), zmem(A, h1),
                                          z3.Implies(inA, z3.And(zb(lift(h0) <= x), zb(x <= lift(h1))))))
                want = 0
                for lo, hi in ia.intervals:      # canonical (proved above): disjoint parts
                    want = want + (hi - lo + 1)
                eng.oblige('length', zb(lift(ia.length) == want))
                eng.oblige('length-positive', zb(lift(ia.length) >= len(ia.intervals)))
            return
        ib = interval(list(B))
        if op in ('union', 'inter', 'diff'):
            if op == 'union':
                r = ia + ib
                want = z3.Or(inA, inB)
                if bug == 'union_as_inter':
                    want = z3.And(inA, inB)
            elif op == 'inter':
                r = ia & ib
                want = z3.And(inA, inB)
            else:
                r = ia - ib
                want = z3.And(inA, z3.Not(inB))
            eng.oblige('members', zmem(r.intervals, x) == want)
            eng.oblige('canonical', zcanonical(r.intervals))
            return
        # candidate distinguishing points: every canonical bound and its neighbours
        cands = []
        for lo, hi in list(ia.intervals) + list(ib.intervals):
            cands += [lo, hi, lo - 1, hi + 1]
        if op == 'eq':
            got = (ia == ib)
            ne = (ia != ib)
            eng.oblige('ne-is-not-eq', z3.BoolVal(bool(got) != bool(ne)))
            if got:
                eng.oblige('eq-true-same-set', inA == inB)
            else:
                eng.oblige('eq-false-sets-differ',
                           z3.Or(*[zmem(A, c) != zmem(B, c) for c in cands]) if cands else z3.BoolVal(False))
            return
        if op == 'incl':
            got = (ib in ia)
            if got:
                eng.oblige('incl-true', z3.Implies(inB, inA))
            else:
                eng.oblige('incl-false-has-witness',
                           z3.Or(*[z3.And(zmem(B, c), z3.Not(zmem(A, c))) for c in cands]) if cands
                           else z3.BoolVal(False))
            return
        raise ValueError(op)

    def safe(eng):
        try:
            return fn(eng)
        except Exception as ex:
            import traceback
            eng.fail('no-exception', dict(exc="%s: %s" % (type(ex).__name__, ex), tb=traceback.format_exc()[-500:]))
    recs = eng.explore(safe)
    common.absorb_engine(res, eng, recs, task['id'])
    for v in res['violations']:
        v['task_desc'] = dict(op=op, na=na, nb=nb)
    res['nontrivial'] = sum(1 for r in recs if r['status'] == 'ok')
    res['samples'] = ["%s with %d and %d symbolic intervals: %d paths (order types), %d obligations" % (
        op, na, nb, eng.stats['paths'], eng.stats['obligations'])]
    return res


# ---- concrete replay (plain ints, unpatched code)
def _mem(ivs, p):
    return any(lo <= p <= hi for lo, hi in ivs)


def _canon(ivs):
    prev = None
    for lo, hi in ivs:
        if lo > hi or (prev is not None and not prev + 1 < lo):
            return False
        prev = hi
    return True


def replay(w):
    from miasm.core.interval import interval
    t = w['task_desc']
    inp = w['inputs']
    A = [(inp['a%d' % i], inp['A%d' % i]) for i in range(t['na'])]
    B = [(inp['b%d' % i], inp['B%d' % i]) for i in range(t['nb'])]
    pts = set([inp.get('x', 0)])
    for lo, hi in A + B:
        pts.update([lo - 1, lo, lo + 1, hi - 1, hi, hi + 1])
    try:
        ia = interval(list(A))
        ib = interval(list(B))
        op = t['op']
        bad = []
        if not _canon(ia.intervals):
            bad.append("interval(%r) = %r not canonical" % (A, ia))
        for p in pts:
            if _mem(ia.intervals, p) != _mem(A, p):
                bad.append("interval(%r) = %r wrong at %d" % (A, ia, p))
        if op == 'contains_elt':
            for p in pts:
                if (p in ia) != _mem(A, p):
                    bad.append("%d in %r gives %r" % (p, ia, p in ia))
        if op == 'hull_length':
            h0, h1 = ia.hull()
            good = [p for p in pts if _mem(A, p)]
            if good and (h0 != min(good) or h1 != max(good)):
                bad.append("hull %r of %r" % ((h0, h1), A))
            if not good and h0 is not None:
                bad.append("hull of empty %r" % (A,))
            # independent cardinality: merge
            card, cur = 0, None
            for lo, hi in sorted(x for x in A if x[0] <= x[1]):
                if cur is None or lo > cur:
                    card += hi - lo + 1
                    cur = hi
                elif hi > cur:
                    card += hi - cur
                    cur = hi
            if ia.length != card:
                bad.append("length %r of %r (expected %d)" % (ia.length, A, card))
        if op in ('union', 'inter', 'diff'):
            r = {'union': ia + ib, 'inter': ia & ib, 'diff': ia - ib}[op]
            f = {'union': lambda a, b: a or b, 'inter': lambda a, b: a and b, 'diff': lambda a, b: a and not b}[op]
            if not _canon(r.intervals):
                bad.append("%s(%r, %r) = %r not canonical" % (op, A, B, r))
            for p in pts:
                if _mem(r.intervals, p) != f(_mem(A, p), _mem(B, p)):
                    bad.append("%s(%r, %r) = %r wrong at %d" % (op, A, B, r, p))
        if op == 'eq':
            same = all(_mem(A, p) == _mem(B, p) for p in pts)
            if (ia == ib) != same or (ia != ib) == same:
                bad.append("interval(%r) == interval(%r) gives %r, sets equal: %r" % (A, B, ia == ib, same))
        if op == 'incl':
            inc = all(_mem(A, p) for p in pts if _mem(B, p))
            if (ib in ia) != inc:
                bad.append("interval(%r) in interval(%r) gives %r, expected %r" % (B, A, ib in ia, inc))
    except Exception as ex:
        return True, "raised %r on A=%r B=%r" % (ex, A, B)
    if bad:
        return True, bad[0]
    return False, "agrees with set semantics on %d probe points (A=%r B=%r)" % (len(pts), A, B)


if __name__ == '__main__':
    from vf.props import c26
    common.main(c26)
