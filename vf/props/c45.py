"""C45 -- imported functions get distinct, stable stub addresses.

(a) Bounded histories of libimp registrations (library names incl. extension-less and same-stem variants, function
    names and ordinals) are explored with the symx engine (operation codes / arguments are solver variables that
    concretise: names are dictionary keys); after every step the real object is compared with a 15-line model.
(b) Inductive step for "hundreds of imports": from the reachable allocator state libbase2lastad[A] = base_A + 4 +
    16*k with k SYMBOLIC, one more registration must not return a stub of another library.
"""
import builtins

from vf import common

PROP = 'C45'
LEVEL = 'other'

LIBS = ['kernel32.dll', 'kernel32', 'KERNEL32.DLL ', 'winspool.drv', 'winspool.dll', 'msvcrt.dll', 'msvcrt_p.dll']
FUNCS = [None, 'Sleep', 'p_fmode', 'fmode', 1, 'sleep']

META = dict(
    functions=["miasm.jitter.loader.utils.libimp.lib_get_add_base / lib_get_add_func", "canon_libname_libfunc"],
    stubs=[],
    bounds=dict(quick=dict(history_steps=3, library_names=LIBS, functions=[str(f) for f in FUNCS], inductive_k=[0, 300]),
                thorough=dict(history_steps=4, library_names=LIBS, functions=[str(f) for f in FUNCS], inductive_k=[0, 600])),
    outside=["export tables / add_export_lib (need parsed PE/ELF objects)", "more than 4 registrations per history (the "
             "inductive step covers allocator states reached after any number of imports of one library)"],
    assumptions=["a library is identified by its normalised name (lower case, surrounding spaces stripped, '.dll' appended when "
                 "there is no extension)"],
    rule="history = K registrations (library name x function/ordinal or base only); non-trivial = history registering at least "
         "two different (library, function) pairs",
    explanation="Bounded exhaustive exploration of registration histories (solver-driven enumeration: names are dictionary keys) "
                "plus an inductive allocator step with a symbolic import count.",
)


def norm(name):
    n = name.lower().strip(' ')
    return n if '.' in n else n + '.dll'


def tasks(tier, seed):
    b = META['bounds'][tier]
    ts = []
    for i, lib in enumerate(LIBS):
        for j, f in enumerate(FUNCS):
            ts.append(dict(kind='hist', first=(i, j), K=b['history_steps'], tier=tier, id='hist:%s:%s' % (lib.strip(), f)))
    ts.append(dict(kind='inductive', kmax=b['inductive_k'][1], tier=tier, id='inductive', cost=100))
    return ts


def twins(tier):
    return [dict(kind='hist', first=(0, 1), K=2, tier=tier, id='twin:case-sensitive-model', bug='case_sensitive')]


def step(imp, model, lib, func, bug=None):
    """apply one registration to the real object and to the model; returns list of complaints"""
    bad = []
    key_lib = lib if bug == 'case_sensitive' else norm(lib)
    base = imp.lib_get_add_base(lib)
    if key_lib in model['bases']:
        if model['bases'][key_lib] != base:
            bad.append("library %r moved from 0x%x to 0x%x" % (lib, model['bases'][key_lib], base))
    else:
        if base in model['bases'].values():
            bad.append("library %r shares base 0x%x with another library" % (lib, base))
        model['bases'][key_lib] = base
    if func is None:
        return bad
    ad = imp.lib_get_add_func(base, func)
    k = (key_lib, func)
    if k in model['stubs']:
        if model['stubs'][k] != ad:
            bad.append("%r!%r moved from 0x%x to 0x%x" % (lib, func, model['stubs'][k], ad))
    else:
        for k2, a2 in model['stubs'].items():
            if a2 == ad:
                bad.append("stub 0x%x shared by %r and %r" % (ad, k2, k))
        model['stubs'][k] = ad
    info = imp.fad2info.get(ad)
    if info != (base, func):
        bad.append("stub 0x%x maps back to %r, expected (0x%x, %r)" % (ad, info, base, func))
    for k2, a2 in model['stubs'].items():
        if imp.fad2info.get(a2) != (model['bases'][k2[0]], k2[1]):
            bad.append("stub 0x%x of %r no longer maps back to it (%r)" % (a2, k2, imp.fad2info.get(a2)))
    return bad


def run_task(task):
    import z3
    import time
    from vf.symx import Engine
    from miasm.jitter.loader.utils import libimp
    import logging
    logging.getLogger('loader_common').setLevel(logging.ERROR)
    res = common.new_result(task)
    eng = Engine(timeout_ms=10000, max_paths=200000)
    eng.deadline = time.time() + (150 if task['tier'] == 'quick' else 1500)
    eng.on_path_end = common.make_known_attributor(common.load_known(PROP), task['id'])
    nt = [0]
    if task['kind'] == 'hist':
        K = task['K']

        def fn(eng):
            imp = libimp()
            model = dict(bases={}, stubs={})
            log = []
            for k in range(K):
                if k == 0:
                    i, j = task['first']
                else:
                    i = builtins.int(eng.fresh_int('lib%d' % k, 0, len(LIBS) - 1))
                    j = builtins.int(eng.fresh_int('func%d' % k, 0, len(FUNCS) - 1))
                log.append("%r!%r" % (LIBS[i], FUNCS[j]))
                try:
                    bad = step(imp, model, LIBS[i], FUNCS[j], task.get('bug'))
                except Exception as ex:
                    eng.fail('no-exception', dict(exc="%s: %s" % (type(ex).__name__, ex), log=list(log)))
                    return
                if bad:
                    eng.oblige('distinct-stable-stubs', z3.BoolVal(False), dict(log=list(log), complaint=bad[0]))
                    return
            if len(model['stubs']) >= 2:
                nt[0] += 1
            eng.oblige('distinct-stable-stubs', z3.BoolVal(True))
    else:
        def fn(eng):
            imp = libimp()
            a = imp.lib_get_add_base('a.dll')
            b_ = imp.lib_get_add_base('b.dll')
            fb = imp.lib_get_add_func(b_, 'first')
            k = eng.fresh_int('k', 0, task['kmax'])
            # reachable allocator state after k imports of a.dll (each import advances the cursor by 0x10)
            imp.libbase2lastad[a] = a + 4 + 16 * k
            ad = imp.lib_get_add_func(a, 'new')
            nt[0] += 1
            other = (ad == fb)
            kk = builtins.int(k)
            # a library window holds 255 stubs (0x1000 spacing, 0x10 step, first stub at +4)
            sfx = 'within-255-imports' if kk <= 254 else 'beyond-255-imports'
            eng.oblige('stub-distinct-from-other-library:' + sfx, z3.BoolVal(not bool(other)), dict(k=kk))
            eng.oblige('maps-back:' + sfx, z3.BoolVal(imp.fad2info.get(builtins.int(ad)) == (a, 'new') and
                                               imp.fad2info.get(fb) == (b_, 'first')))
            lo, hi = b_, b_ + 0x1000
            eng.oblige('stub-inside-own-library-area:' + sfx, z3.BoolVal(not (lo <= builtins.int(ad) < hi)), dict(k=kk))
    recs = eng.explore(fn)
    common.absorb_engine(res, eng, recs, task['id'])
    for v in res['violations']:
        v['task_desc'] = {k: task[k] for k in ('kind', 'first', 'K', 'kmax') if k in task}
    res['nontrivial'] = nt[0]
    res['samples'] = ["%s: %d histories" % (task['id'], eng.stats['paths'])]
    return res


def replay(w):
    from miasm.jitter.loader.utils import libimp
    import logging
    logging.getLogger('loader_common').setLevel(logging.ERROR)
    t = w['task_desc']
    inp = w['inputs']
    imp = libimp()
    if t['kind'] == 'inductive':
        k = inp['k']
        a = imp.lib_get_add_base('a.dll')
        b_ = imp.lib_get_add_base('b.dll')
        fb = imp.lib_get_add_func(b_, 'first')
        # really perform k imports instead of poking the cursor
        for i in range(k):
            imp.lib_get_add_func(a, 'f%d' % i)
        ad = imp.lib_get_add_func(a, 'new')
        bad = ad == fb or (b_ <= ad < b_ + 0x1000) or imp.fad2info.get(fb) != (b_, 'first')
        return bad, "after %d imports of a.dll, a.dll!new gets stub 0x%x; b.dll!first has 0x%x (b.dll base 0x%x); " \
                    "0x%x maps back to %r" % (k, ad, fb, b_, fb, imp.fad2info.get(fb))
    model = dict(bases={}, stubs={})
    log = []
    for k in range(t['K']):
        if k == 0:
            i, j = t['first']
        else:
            i, j = inp.get('lib%d' % k, 0), inp.get('func%d' % k, 0)
        log.append("%r!%r" % (LIBS[i], FUNCS[j]))
        try:
            bad = step(imp, model, LIBS[i], FUNCS[j])
        except Exception as ex:
            return True, "history %s raised %s: %s" % (" ; ".join(log), type(ex).__name__, ex)
        if bad:
            return True, "history %s : %s" % (" ; ".join(log), bad[0])
    return False, "history %s consistent" % " ; ".join(log)


if __name__ == '__main__':
    from vf.props import c45
    common.main(c45)
