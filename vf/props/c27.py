"""C27 -- graph algorithms match their mathematical definitions.

The adjacency matrix of an n-node graph is a vector of solver booleans; the real DiGraph is built from it (each
`if bit: add_edge` forks) and every algorithm is run for every head / leaf and compared with set-theoretic definitions
evaluated by an independent 80-line oracle on the same adjacency matrix.  Node identities are hashed by the
implementation, so nothing symbolic survives into the algorithms: the solver's share is to drive an EXHAUSTIVE
enumeration of the 2^(n*n) graphs (and to hand back the witness).  It is labelled bounded exhaustive exploration.
"""
import itertools

from vf import common

PROP = 'C27'
LEVEL = 'other'
CALL_LIMIT_S = 3      # per algorithm and head on a graph of <= 5 nodes (normally < 1 ms); no result = violation

META = dict(
    functions=["miasm.core.graph.DiGraph._compute_generic_dominators / compute_dominators / compute_postdominators",
               "compute_immediate_dominators / compute_immediate_postdominators / _walk_generic_dominator / compute_dominator_tree",
               "compute_dominance_frontier", "compute_back_edges / compute_natural_loops / _compute_natural_loop_body / has_loop",
               "compute_strongly_connected_components / compute_weakly_connected_components",
               "reachable_sons / reachable_parents / reachable_parents_stop_node / walk_*_first_*",
               "find_path / find_path_from_src"],
    stubs=[],
    bounds=dict(quick=dict(nodes="every graph with 1..4 nodes (all 2^(n*n) adjacency matrices: 2 + 16 + 512 + 65536 graphs, isolated "
                                 "nodes and self loops included); every head/leaf"),
                thorough=dict(nodes="every graph with 1..4 nodes, every head/leaf; 5-node graphs restricted to 5 fixed sets of 17 "
                                    "candidate edges (131072 graphs each, the other 8 adjacency bits clear)")),
    outside=["graphs with more than 4 nodes beyond the listed 5-node families (the property's 'exhaustive up to 5 nodes' is 2^25 "
             "graphs: not reached)", "random larger graphs", "find_path with cycles_count > 1"],
    assumptions=["natural loop of back edge (a, b) = {b} + every node that reaches a without passing through b (Aho et al.)",
                 "dominance frontier DF(x) = {y | x dominates a predecessor of y and x does not strictly dominate y} over the nodes "
                 "reachable from the head", "find_path(cycles_count=0) = the simple paths; for cycles_count=1 only: every result is "
                 "a walk src->dst of the graph, no duplicates, contains all simple paths, no node more than twice"],
    rule="graph = adjacency matrix; each (graph, algorithm) pair is one obligation covering every head/leaf; non-trivial = graph "
         "with a cycle through a head candidate",
    explanation="Bounded exhaustive exploration: the solver enumerates adjacency matrices, the real algorithms run on each and are "
                "compared with definition-level oracles.",
)

N5_SETS = 5
N5_FREE = 17


def five_sets():
    import random
    cells5 = [(i, j) for i in range(5) for j in range(5)]
    return [random.Random(27000 + k).sample(cells5, N5_FREE) for k in range(N5_SETS)]


def tasks(tier, seed):
    ts = []
    for n in (1, 2, 3):
        cells = [(i, j) for i in range(n) for j in range(n)]
        ts.append(dict(id='n%d' % n, n=n, cells=cells, fixed={}, tier=tier))
    cells4 = [(i, j) for i in range(4) for j in range(4)]
    for pre in itertools.product((0, 1), repeat=6):
        fixed = {c: b for c, b in zip(cells4[:6], pre)}
        ts.append(dict(id='n4:%s' % ''.join(map(str, pre)), n=4, cells=cells4, fixed=fixed, tier=tier, cost=2))
    if tier == 'quick':
        return ts
    cells5 = [(i, j) for i in range(5) for j in range(5)]
    for k, cand in enumerate(five_sets()):
        for pre in itertools.product((0, 1), repeat=7):
            fixed = {c: 0 for c in cells5 if c not in cand}
            fixed.update({c: b for c, b in zip(cand[:7], pre)})
            ts.append(dict(id='n5:%d:%s' % (k, ''.join(map(str, pre))), n=5, cells=cells5, fixed=fixed, tier=tier, cost=3))
    return ts


def twins(tier):
    cells = [(i, j) for i in range(2) for j in range(2)]
    return [dict(id='twin:oracle-ignores-head-cycle', n=2, cells=cells, fixed={}, tier=tier, bug='dom_no_head_pin')]


# ------------------------------------------------------------------------------------------------ oracle (definitions)

def o_reach(n, adj, start, avoid=None, back=False):
    """nodes reachable from start by paths (length >= 0) that do not touch `avoid`"""
    if start == avoid:
        return set()
    seen = {start}
    todo = [start]
    while todo:
        x = todo.pop()
        for y in range(n):
            e = (y, x) if back else (x, y)
            if e in adj and y != avoid and y not in seen:
                seen.add(y)
                todo.append(y)
    return seen


def o_dominators(n, adj, head, back=False, bug=None):
    R = o_reach(n, adj, head, back=back)
    dom = {}
    for x in R:
        dom[x] = set(d for d in R if d == x or x not in o_reach(n, adj, head, avoid=d, back=back))
    if bug == 'dom_no_head_pin':
        # deliberately wrong: a head on a cycle is dominated by the cycle
        for x in R:
            if any(((p, head) if not back else (head, p)) in adj for p in R):
                dom[x] = set(R)
    return dom


def o_idoms(dom, head):
    out = {}
    for x, ds in dom.items():
        if x == head:
            continue
        strict = ds - {x}
        cands = [d for d in strict if all(s in dom[d] for s in strict)]
        assert len(cands) == 1, (x, ds, cands)
        out[x] = cands[0]
    return out


def o_frontier(n, adj, head):
    dom = o_dominators(n, adj, head)
    R = set(dom)
    out = {}
    for x in R:
        df = set()
        for y in R:
            if any((p, y) in adj and x in dom[p] for p in R) and not (x in dom[y] and x != y):
                df.add(y)
        if df:
            out[x] = df
    return out


def o_back_edges(n, adj, head):
    dom = o_dominators(n, adj, head)
    return sorted((a, b) for (a, b) in adj if a in dom and b in dom[a])


def o_loop_body(n, adj, a, b):
    return {b} | o_reach(n, adj, a, avoid=b, back=True)


def o_scc(n, adj):
    fw = {x: o_reach(n, adj, x) for x in range(n)}
    return set(frozenset(y for y in range(n) if y in fw[x] and x in fw[y]) for x in range(n))


def o_wcc(n, adj):
    und = set(adj) | set((b, a) for a, b in adj)
    return set(frozenset(o_reach(n, und, x)) for x in range(n))


def o_has_loop(n, adj):
    return any(any((x, y) in adj and x in o_reach(n, adj, y) for y in range(n)) for x in range(n))


def o_simple_paths(n, adj, src, dst):
    out = []

    def rec(path):
        if path[-1] == dst:
            out.append(list(path))
            return
        for y in range(n):
            if (path[-1], y) in adj and y not in path:
                rec(path + [y])
    rec([src])
    return sorted(out)


def o_parents_stop(n, adj, leaf, head):
    """x such that some path x -> ... -> leaf has `head` nowhere but (possibly) first"""
    seen = {leaf}
    todo = [leaf]
    while todo:
        x = todo.pop()
        if x == head:
            continue
        for y in range(n):
            if (y, x) in adj and y not in seen:
                seen.add(y)
                todo.append(y)
    return seen


# ------------------------------------------------------------------------------------------------ comparison

def build(n, adj):
    from miasm.core.graph import DiGraph
    g = DiGraph()
    for x in range(n):
        g.add_node(x)
    for e in sorted(adj):
        g.add_edge(*e)
    return g


def nodup_set(lst):
    lst = list(lst)
    return (len(lst) == len(set(lst))), set(lst)


def compare(n, adj, bug=None, only=None):
    """-> dict algorithm -> first mismatch text (only failing algorithms)"""
    g = build(n, adj)
    bad = {}

    def chk(algo, what, got, want):
        if got != want and algo not in bad:
            bad[algo] = "%s: implementation %r, definition %r" % (what, got, want)

    def guarded(algo, f):
        from vf.simpharness import time_limit
        if only is not None and algo != only:
            return
        try:
            with time_limit(CALL_LIMIT_S):
                f()
        except Exception as ex:
            if algo not in bad:
                bad[algo] = "raised %s: %s" % (type(ex).__name__, ex)

    for h in range(n):
        dom = o_dominators(n, adj, h, bug=bug)
        pdom = o_dominators(n, adj, h, back=True, bug=bug)
        guarded('dominators', lambda: chk('dominators', 'compute_dominators(%d)' % h, g.compute_dominators(h), dom))
        guarded('postdominators', lambda: chk('postdominators', 'compute_postdominators(%d)' % h, g.compute_postdominators(h), pdom))
        if bug:
            continue
        idom = o_idoms(dom, h)
        ipdom = o_idoms(pdom, h)
        guarded('immediate-dominators', lambda: chk('immediate-dominators', 'compute_immediate_dominators(%d)' % h,
                                                    g.compute_immediate_dominators(h), idom))
        guarded('immediate-postdominators', lambda: chk('immediate-postdominators', 'compute_immediate_postdominators(%d)' % h,
                                                        g.compute_immediate_postdominators(h), ipdom))

        def domtree():
            t = g.compute_dominator_tree(h)
            chk('dominator-tree', 'compute_dominator_tree(%d) edges' % h, sorted(t.edges()), sorted((d, x) for x, d in idom.items()))
        guarded('dominator-tree', domtree)
        guarded('dominance-frontier', lambda: chk('dominance-frontier', 'compute_dominance_frontier(%d)' % h,
                                                  g.compute_dominance_frontier(h), o_frontier(n, adj, h)))
        be = o_back_edges(n, adj, h)
        guarded('back-edges', lambda: chk('back-edges', 'compute_back_edges(%d)' % h, sorted(g.compute_back_edges(h)), be))

        def loops():
            got = sorted((e, sorted(body)) for e, body in g.compute_natural_loops(h))
            want = sorted(((a, b), sorted(o_loop_body(n, adj, a, b))) for a, b in be)
            chk('natural-loops', 'compute_natural_loops(%d)' % h, got, want)
        guarded('natural-loops', loops)

        def reach():
            for name, f, want in (('reachable_sons', g.reachable_sons, o_reach(n, adj, h)),
                                  ('reachable_parents', g.reachable_parents, o_reach(n, adj, h, back=True)),
                                  ('walk_breadth_first_forward', g.walk_breadth_first_forward, o_reach(n, adj, h)),
                                  ('walk_depth_first_forward', g.walk_depth_first_forward, o_reach(n, adj, h)),
                                  ('walk_breadth_first_backward', g.walk_breadth_first_backward, o_reach(n, adj, h, back=True)),
                                  ('walk_depth_first_backward', g.walk_depth_first_backward, o_reach(n, adj, h, back=True))):
                lst = list(f(h))
                nd, st = nodup_set(lst)
                chk('reachable', '%s(%d)' % (name, h), (nd, st), (True, want))
                if name.startswith('walk_breadth'):
                    back = name.endswith('backward')
                    dist = {h: 0}
                    fr = [h]
                    while fr:
                        nx = []
                        for x in fr:
                            for y in range(n):
                                e = (y, x) if back else (x, y)
                                if e in adj and y not in dist:
                                    dist[y] = dist[x] + 1
                                    nx.append(y)
                        fr = nx
                    ds = [dist.get(x, -1) for x in lst]
                    chk('reachable', '%s(%d) visits by non-decreasing distance' % (name, h), ds, sorted(ds))
            for leaf in range(n):
                lst = list(g.reachable_parents_stop_node(leaf, h))
                nd, st = nodup_set(lst)
                chk('reachable', 'reachable_parents_stop_node(leaf=%d, head=%d)' % (leaf, h), (nd, st),
                    (True, o_parents_stop(n, adj, leaf, h)))
        guarded('reachable', reach)

        def paths():
            for dst in range(n):
                want = o_simple_paths(n, adj, h, dst)
                chk('find-path', 'find_path(%d, %d)' % (h, dst), sorted(g.find_path(h, dst)), want)
                chk('find-path', 'find_path_from_src(%d, %d)' % (h, dst), sorted(g.find_path_from_src(h, dst)), want)
                for fname in ('find_path', 'find_path_from_src'):
                    got = sorted(getattr(g, fname)(h, dst, cycles_count=1))
                    ok = (len(got) == len(set(map(tuple, got)))
                          and all(p and p[0] == h and p[-1] == dst and all((a, b) in adj for a, b in zip(p, p[1:]))
                                  and max(p.count(x) for x in p) <= 2 for p in got)
                          and all(p in got for p in want))
                    chk('find-path', '%s(%d, %d, cycles_count=1) gives walks src->dst, each once, all simple paths among them'
                        % (fname, h, dst), (ok, got if not ok else None), (True, None))
        guarded('find-path', paths)

    if bug:
        return bad

    def scc():
        lst = [frozenset(c) for c in g.compute_strongly_connected_components()]
        chk('scc', 'compute_strongly_connected_components()', (len(lst), set(lst)), (len(o_scc(n, adj)), o_scc(n, adj)))
    guarded('scc', scc)

    def wcc():
        lst = [frozenset(c) for c in g.compute_weakly_connected_components()]
        chk('wcc', 'compute_weakly_connected_components()', (len(lst), set(lst)), (len(o_wcc(n, adj)), o_wcc(n, adj)))
    guarded('wcc', wcc)
    guarded('has-loop', lambda: chk('has-loop', 'has_loop()', g.has_loop(), o_has_loop(n, adj)))
    return bad


ALGOS = ['dominators', 'postdominators', 'immediate-dominators', 'immediate-postdominators', 'dominator-tree',
         'dominance-frontier', 'back-edges', 'natural-loops', 'reachable', 'find-path', 'scc', 'wcc', 'has-loop']


def run_task(task):
    import time
    import z3
    from vf.symx import Engine
    res = common.new_result(task)
    eng = Engine(timeout_ms=10000, max_paths=400000)
    eng.deadline = time.time() + (150 if task['tier'] == 'quick' else 3000)
    eng.on_path_end = common.make_known_attributor(common.load_known(PROP), task['id'])
    n, cells, fixed = task['n'], [tuple(c) for c in task['cells']], {tuple(k): v for k, v in task['fixed'].items()}
    bug = task.get('bug')
    nontriv = [0]

    def fn(eng):
        adj = set()
        for c in cells:
            if c in fixed:
                if fixed[c]:
                    adj.add(c)
                continue
            if eng.fresh_bool('e%d_%d' % c):
                adj.add(c)
        if o_has_loop(n, adj):
            nontriv[0] += 1
        bad = compare(n, adj, bug)
        edges = sorted(adj)
        for a in (ALGOS if not bug else ALGOS[:2]):
            eng.oblige(a, z3.BoolVal(a not in bad), dict(n=n, edges=edges, mismatch=bad.get(a)))
    recs = eng.explore(fn)
    common.absorb_engine(res, eng, recs, task['id'])
    for v in res['violations']:
        v['task_desc'] = dict(n=n)
    res['nontrivial'] = nontriv[0]
    res['samples'] = ["%d-node graphs, %d free adjacency bits: %d graphs" % (n, len(cells) - len(fixed), eng.stats['paths'])]
    return res


def replay(w):
    n = w['task_desc']['n']
    adj = set(tuple(e) for e in w['edges'])
    ob = w['ob']
    bad = compare(n, adj, only=ob)
    if ob in bad:
        return True, "graph with nodes 0..%d and edges %s: %s" % (n - 1, sorted(adj), bad[ob])
    return False, "graph %s: %s agrees with its definition" % (sorted(adj), ob)


if __name__ == '__main__':
    from vf.props import c27
    common.main(c27)
