"""Mock jitter / VM used to run miasm's emulated OS helpers under symx (C47, C48).

MockVM is a byte map with page bookkeeping (overlap refused like the C manager's is_mpn_in_tab); bytes may be
SymInt.  MockJitter supplies the calling-convention glue (func_args_* / func_ret_*) with preset arguments.
"""
import builtins
import collections

from vf.symbytes import SymBytes


class LazyRepeat(object):
    """b"\\x00" * SymInt : a buffer of symbolic length (contents = one repeated byte)."""

    def __init__(self, byte, count):
        self.byte = byte
        self.count = count

    def __len__(self):
        return builtins.int(self.count)


class PageDict(object):
    """Association list keyed by (possibly symbolic) page addresses: lookups compare with == (forking) instead
    of hashing, so symbolic addresses are not concretised."""

    def __init__(self, pairs=()):
        self.pairs = list(pairs)

    def items(self):
        return list(self.pairs)

    def keys(self):
        return [k for k, _ in self.pairs]

    def values(self):
        return [v for _, v in self.pairs]

    def __iter__(self):
        return iter(self.keys())

    def __len__(self):
        return len(self.pairs)

    def __contains__(self, key):
        for k, _ in self.pairs:
            if k == key:
                return True
        return False

    def get(self, key, default=None):
        for k, v in self.pairs:
            if k == key:
                return v
        return default

    def __getitem__(self, key):
        for k, v in self.pairs:
            if k == key:
                return v
        raise KeyError(key)

    def __setitem__(self, key, value):
        for i, (k, v) in enumerate(self.pairs):
            if k == key:
                self.pairs[i] = (key, value)
                return
        self.pairs.append((key, value))


class MockVM(object):
    def __init__(self):
        self.mem = {}
        self.pages = PageDict()       # addr -> dict(size=..., access=...)   (addr / size may be SymInt)

    # --- page API (subset of VmMngr)
    def add_memory_page(self, addr, access, data, name=""):
        size = data.count if isinstance(data, LazyRepeat) else len(data)
        for a, info in self.pages.items():
            # overlap test of the C manager: [addr, addr+size) vs [a, a+info.size)
            if (addr < a + info['size']) and (a < addr + size):
                raise RuntimeError("Error: memory page overlap")
        self.pages.pairs.append((addr, dict(size=size, access=access, name=name)))
        if not isinstance(data, LazyRepeat):
            for i, b in enumerate(data.items if isinstance(data, SymBytes) else data):
                self.mem[builtins.int(addr) + i] = b

    def get_all_memory(self):
        return PageDict((a, dict(size=i['size'], access=i['access'])) for a, i in self.pages.items())

    def set_mem_access(self, addr, access):
        self.pages[addr]['access'] = access

    def is_mapped(self, addr, size):
        for a, info in self.pages.items():
            if a <= addr and addr + size <= a + info['size']:
                return True
        return False

    def map_bytes(self, addr, items):
        for i, b in enumerate(items):
            self.mem[addr + i] = b

    def get_mem(self, addr, size):
        addr = builtins.int(addr)
        size = builtins.int(size)
        out = []
        for i in range(size):
            if addr + i not in self.mem:
                raise RuntimeError("Cannot find address 0x%x" % (addr + i))
            out.append(self.mem[addr + i])
        return SymBytes(out)

    def set_mem(self, addr, data):
        if isinstance(data, LazyRepeat):
            return          # zero fill of a fresh page: contents are not tracked for lazy buffers
        addr = builtins.int(addr)
        items = list(data.items) if isinstance(data, SymBytes) else list(data)
        for i in range(len(items)):
            if addr + i not in self.mem:
                raise RuntimeError("Cannot find address 0x%x" % (addr + i))
        for i, b in enumerate(items):
            self.mem[addr + i] = b


class Cpu(object):
    pass


class MockJitter(object):
    def __init__(self, args, vm=None, ret_ad=0x1337):
        self.vm = vm or MockVM()
        self.cpu = Cpu()
        self.args = list(args)
        self.ret_ad = ret_ad
        self.ret = None
        self.pc = None

    def _args(self, names):
        if isinstance(names, int):
            names = ["arg%d" % i for i in range(names)]
        T = collections.namedtuple("args", names)
        return self.ret_ad, T(*self.args[:len(names)])

    func_args_stdcall = _args
    func_args_cdecl = _args
    func_args_systemv = _args

    def _ret(self, ret_addr, v1=None, v2=None):
        self.pc = ret_addr
        self.ret = (v1, v2)
        return True

    func_ret_stdcall = _ret
    func_ret_cdecl = _ret
    func_ret_systemv = _ret

    def get_c_str(self, addr, max_char=None):
        l = 0
        tmp = addr
        while ((max_char is None or l < max_char) and self.vm.get_mem(tmp, 1) != b"\x00"):
            tmp += 1
            l += 1
        return self.vm.get_mem(addr, l).decode('latin1')

    def set_c_str(self, addr, value):
        self.vm.set_mem(addr, value.encode('latin1') + b"\x00")
