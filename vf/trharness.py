"""Shared shapes and solver query for the translator properties C05 (z3), C06 (SMT-LIB2), C07 (Python).

A shape is an expression over identifiers (operands fully symbolic) rendered as Python source so that the
replay process can rebuild it on unpatched miasm.  The query `translator(e) != refsem(e)` ranges over all
identifier values and all array contents (division by zero excluded by hypothesis).
"""
import random

BIN = ['+', '-', '*', '&', '^', '|', '<<', '>>', 'a>>', '<<<', '>>>', '/', '%', 'udiv', 'umod', 'sdiv', 'smod']
CMP = ['==', '<u', '<s', '<=u', '<=s']
UN = ['-', 'parity', 'cntleadzeros', 'cnttrailzeros']
NARY = ['+', '&', '|', '^', '*']
DIVS = ('/', '%', 'udiv', 'umod', 'sdiv', 'smod')


def mk_env():
    import miasm.expression.expression as E
    return dict(ExprId=E.ExprId, ExprInt=E.ExprInt, ExprOp=E.ExprOp, ExprSlice=E.ExprSlice,
                ExprCompose=E.ExprCompose, ExprCond=E.ExprCond, ExprMem=E.ExprMem, ExprAssign=E.ExprAssign)


def build(src):
    return eval(src, mk_env())


def I(name, w):
    return "ExprId(%r, %d)" % (name, w)


def C(v, w):
    return "ExprInt(0x%x, %d)" % (v % (1 << w), w)


def O(op, *a):
    return "ExprOp(%r, %s)" % (op, ", ".join(a))


def shapes(widths, seed, ops_bin, ops_cmp, ops_un, ext=True, deep_widths=(8, 32), mem=True, max_div_width=16,
           max_mul_width=64, deep_fraction=1.0, ptr_widths=(32, 64), nary=NARY, max_sdiv_width=8):
    """Yield (id, python-source) pairs."""
    rnd = random.Random(seed)
    out = []

    def add(i, s):
        out.append((i, s))
    for w in widths:
        a, b, c = I('a', w), I('b', w), I('c', w)
        consts = sorted(set([0, 1, 1 << (w - 1), (1 << w) - 1, rnd.getrandbits(w)]))
        for op in ops_bin:
            if op in DIVS and w > (max_div_width if op not in ('sdiv', 'smod') else min(max_div_width, max_sdiv_width)):
                continue
            if op == '*' and w > max_mul_width:
                continue
            add('bin:%s:w%d' % (op, w), O(op, a, b))
            for k in consts:
                if op in DIVS and k == 0:
                    continue
                add('bin:%s:w%d:c%x' % (op, w, k), O(op, a, C(k, w)))
                if op not in ('+', '&', '|', '^', '*'):
                    add('bin:%s:w%d:c%x:l' % (op, w, k), O(op, C(k, w), a))
        for op in nary:
            if op in ops_bin and not (op == '*' and w > max_mul_width):
                add('nary:%s:w%d' % (op, w), O(op, a, b, c))
                add('nary4:%s:w%d' % (op, w), O(op, a, b, c, C(consts[-1], w)))
        for op in ops_cmp:
            add('cmp:%s:w%d' % (op, w), O(op, a, b))
            for k in consts:
                add('cmp:%s:w%d:c%x' % (op, w, k), O(op, a, C(k, w)))
        for op in ops_un:
            if op == 'parity' and w < 8:
                continue     # the translators extract the low byte: operands narrower than 8 bits are not accepted
            add('un:%s:w%d' % (op, w), O(op, a))
        if ext:
            for nw in sorted(set([w + 1, 2 * w, 128])):
                if w < nw <= 128:
                    add('zext:w%d:%d' % (w, nw), O('zeroExt_%d' % nw, a))
                    add('sext:w%d:%d' % (w, nw), O('signExt_%d' % nw, a))
        for (s, e) in sorted(set([(0, 1), (w - 1, w), (w // 2, w), (0, w), (1, max(2, w - 1)), (0, max(1, w // 2))])):
            if 0 <= s < e <= w:
                add('slice:w%d:%d-%d' % (w, s, e), "ExprSlice(%s, %d, %d)" % (a, s, e))
        if w >= 2:
            k = w // 2
            add('compose:w%d' % w, "ExprCompose(ExprSlice(%s, 0, %d), ExprSlice(%s, %d, %d))" % (a, k, b, k, w))
            add('compose3:w%d' % w, "ExprCompose(ExprSlice(%s, 0, 1), %s, ExprSlice(%s, 1, %d))" % (a, C(1, 0 + 1), b, w - 1)
                if w >= 3 else "ExprCompose(ExprSlice(%s, 0, 1), ExprSlice(%s, 1, 2))" % (a, b))
        add('cond:w%d' % w, "ExprCond(%s, %s, %s)" % (a, b, c))
        add('cond1:w%d' % w, "ExprCond(%s, %s, %s)" % (I('f', 1), a, C(consts[-1], w)))
        add('cond-cmp:w%d' % w, "ExprCond(%s, %s, %s)" % (O('==', a, b), b, c) if '==' in ops_cmp else
            "ExprCond(%s, %s, %s)" % (O('&', a, b), b, c))
        add('int:w%d' % w, C(consts[-1], w))
        add('id:w%d' % w, a)
    if mem:
        for pw in ptr_widths:
            p = I('p', pw)
            for sz in (8, 16, 32, 64):
                add('mem:p%d:%d' % (pw, sz), "ExprMem(%s, %d)" % (p, sz))
                add('mem+:p%d:%d' % (pw, sz), "ExprMem(%s, %d)" % (O('+', p, C((1 << pw) - 2, pw)), sz))
            add('mem-mem:p%d' % pw, "ExprMem(ExprMem(%s, %d), 16)" % (p, pw))
            add('mem-op:p%d' % pw, O('+', "ExprMem(%s, 32)" % p, "ExprMem(%s, 32)" % O('+', p, C(2, pw))))
            add('mem-slice:p%d' % pw, "ExprSlice(ExprMem(%s, 32), 8, 24)" % p)
        add('mem:p16:24', "ExprMem(%s, 24)" % I('q', 16))
        add('mem:p8:16', "ExprMem(%s, 16)" % I('r', 8))
    # structural nesting (cond / slice / compose / ext / mem inside one another)
    for w in deep_widths:
        a, b, c = I('a', w), I('b', w), I('c', w)
        f, g, h = I('f', 1), I('g', 1), I('h', 1)
        k = w // 2
        nest = [
            ('cond(cond1)', "ExprCond(ExprCond(%s, %s, %s), %s, %s)" % (f, g, h, a, b)),
            ('cond(cond01)', "ExprCond(ExprCond(%s, %s, %s), %s, %s)" % (f, C(0, 1), C(1, 1), a, b)),
            ('cond(cond10)', "ExprCond(ExprCond(%s, %s, %s), %s, %s)" % (f, C(1, 1), C(0, 1), a, b)),
            ('cond(condw)', "ExprCond(ExprCond(%s, %s, %s), %s, %s)" % (a, b, c, b, c)),
            ('cond(condcmp01)', "ExprCond(ExprCond(%s, %s, %s), %s, %s)" % (O('&', a, b), C(0, 1), C(1, 1), a, b)),
            ('cond(f,cond)', "ExprCond(%s, ExprCond(%s, %s, %s), %s)" % (f, g, a, b, c)),
            ('cond(f,a,cond)', "ExprCond(%s, %s, ExprCond(%s, %s, %s))" % (f, a, a, b, c)),
            ('slice(cond)', "ExprSlice(ExprCond(%s, %s, %s), 1, %d)" % (f, a, b, w - 1)),
            ('slice(slice)', "ExprSlice(ExprSlice(%s, 1, %d), 1, %d)" % (a, w - 1, w - 3)),
            ('slice(compose)', "ExprSlice(ExprCompose(ExprSlice(%s, 0, %d), ExprSlice(%s, 0, %d)), 1, %d)" % (a, k, b, w - k, w - 1)),
            ('compose(cond,slice)', "ExprCompose(ExprCond(%s, ExprSlice(%s, 0, %d), ExprSlice(%s, %d, %d)), ExprSlice(%s, 0, %d))" % (f, a, k, b, w - k, w, c, w - k)),
            ('compose(compose)', "ExprCompose(ExprCompose(ExprSlice(%s, 0, 1), ExprSlice(%s, 0, %d)), ExprSlice(%s, 0, %d))" % (a, b, k - 1, c, w - k)),
            ('cond(slice)', "ExprCond(ExprSlice(%s, %d, %d), %s, %s)" % (a, w - 1, w, b, c)),
            ('neg(cond)', O('-', "ExprCond(%s, %s, %s)" % (f, a, b))),
        ]
        if mem:
            p = I('p', 32)
            nest += [
                ('mem(cond)', "ExprMem(ExprCond(%s, %s, %s), %d)" % (f, p, O('+', p, C(1, 32)), w)),
                ('cond(mem)', "ExprCond(ExprMem(%s, 8), %s, ExprMem(%s, %d))" % (p, a, O('+', p, C(4, 32)), w)),
                ('mem(mem)', "ExprMem(ExprMem(%s, 32), %d)" % (O('+', p, C(8, 32)), w)),
            ]
        if ext:
            nest += [
                ('zext(cond)', O('zeroExt_%d' % (2 * w), "ExprCond(%s, %s, %s)" % (f, a, b))),
                ('sext(slice)', O('signExt_%d' % w, "ExprSlice(%s, 1, %d)" % (a, k + 1))),
                ('zext(zext)', O('zeroExt_%d' % (4 * w), O('zeroExt_%d' % (2 * w), a))),
                ('sext(zext)', O('signExt_%d' % (4 * w), O('zeroExt_%d' % (2 * w), a))),
                ('slice(sext)', "ExprSlice(%s, %d, %d)" % (O('signExt_%d' % (2 * w), a), k, w + k)),
            ]
            if ops_cmp and '<s' in ops_cmp:
                nest += [('cmp(ext)', O('<s', O('signExt_%d' % (2 * w), a), O('zeroExt_%d' % (2 * w), b))),
                         ('cond(cmp01)', "ExprCond(ExprCond(%s, %s, %s), %s, %s)" % (O('<u', a, b), C(0, 1), C(1, 1), a, b))]
        for nm, src in nest:
            add('nest:%s:w%d' % (nm, w), src)
    # depth 2
    for w in deep_widths:
        a, b, c = I('a', w), I('b', w), I('c', w)
        deep = []
        for o1 in ops_bin:
            for o2 in ops_bin:
                if (o1 in DIVS or o2 in DIVS) and w > 8:
                    continue
                if (o1 == '*' and o2 in DIVS) or (o2 == '*' and o1 in DIVS):
                    continue
                deep.append(('d2:%s(%s):w%d' % (o1, o2, w), O(o1, O(o2, a, b), c)))
                deep.append(('d2r:%s(%s):w%d' % (o1, o2, w), O(o1, c, O(o2, a, b))))
            for o2 in ops_un:
                if o2 == 'parity' or (o1 in DIVS and w > 8):
                    continue
                deep.append(('d2u:%s(%s):w%d' % (o1, o2, w), O(o1, O(o2, a), b)))
        for o1 in ops_cmp:
            for o2 in ops_bin:
                if o2 in DIVS and w > 8:
                    continue
                deep.append(('d2c:%s(%s):w%d' % (o1, o2, w), O(o1, O(o2, a, b), c)))
        for o2 in ops_bin:
            if o2 in DIVS and w > 8:
                continue
            deep.append(('d2s:slice(%s):w%d' % (o2, w), "ExprSlice(%s, 1, %d)" % (O(o2, a, b), w - 1)))
            deep.append(('d2k:cond(%s):w%d' % (o2, w), "ExprCond(%s, %s, %s)" % (O(o2, a, b), a, c)))
        if deep_fraction < 1.0:
            deep = rnd.sample(deep, int(len(deep) * deep_fraction))
        out += deep
    return out


def nonzero_divisor_hyp(ref):
    import z3
    d = ref.nonzero_divisors()
    return z3.And(*d) if d else None


def decide(t, ref_term, hyp, timeout_ms):
    """-> ('discharged', None) | ('violated', model) | ('inconclusive', why)"""
    import z3
    s = z3.Solver()
    s.set('timeout', timeout_ms)
    if hyp is not None:
        s.add(hyp)
    if t.sort() != ref_term.sort():
        return 'violated', None
    s.add(t != ref_term)
    r = s.check()
    if r == z3.unsat:
        return 'discharged', None
    if r == z3.sat:
        return 'violated', s.model()
    return 'inconclusive', s.reason_unknown()


def witness_from_model(m, ref, e):
    """ids and per-pointer-width memory bytes touched by e under the model."""
    import z3
    from vf.ceval import ceval, Undefined
    ids = {k[0]: m.eval(v, model_completion=True).as_long() for k, v in ref.ids.items()}
    mems = {}

    # concrete evaluation with a recording memory per pointer width
    def walk(x):
        # evaluate memory pointers bottom-up using the model
        pass
    touched = {}

    class Rec(object):
        def __init__(self, psize):
            self.psize = psize

        def __call__(self, addr):
            arr = ref.mems.get(self.psize)
            if arr is None:
                return 0
            v = m.eval(z3.Select(arr, z3.BitVecVal(addr, self.psize)), model_completion=True).as_long()
            touched.setdefault(str(self.psize), {})[str(addr)] = v
            return v
    try:
        ceval_pw(e, ids, lambda ps: Rec(ps), ref.endian)
    except Exception:
        pass
    return dict(ids=ids, mems=touched)


def ceval_pw(e, ids, memfor, endian='<'):
    """Concrete evaluation with one memory per pointer width and byte order `endian` (the model of the
    z3/SMT2 translators); memfor(psize) -> callable(addr)->byte."""
    from vf import ceval as CE

    def ev(x):
        if x.is_mem():
            p = ev(x.ptr)
            ps = x.ptr.size
            rd = memfor(ps)
            n = (x.size + 7) // 8
            bs = [rd((p + i) & ((1 << ps) - 1)) & 0xff for i in range(n)]
            if endian == '>':
                bs = bs[::-1]
            r = 0
            for i, b in enumerate(bs):
                r |= b << (8 * i)
            return r & ((1 << x.size) - 1)
        if x.is_int() or x.is_id() or x.is_loc():
            return CE.ceval(x, ids, None)
        # rebuild with evaluated children as constants, then evaluate the node itself
        import miasm.expression.expression as E
        if x.is_slice():
            return (ev(x.arg) >> x.start) & ((1 << (x.stop - x.start)) - 1)
        if x.is_compose():
            r, off = 0, 0
            for a in x.args:
                r |= ev(a) << off
                off += a.size
            return r
        if x.is_cond():
            return ev(x.src1) if ev(x.cond) else ev(x.src2)
        if x.is_op():
            args = [E.ExprInt(ev(a), a.size) for a in x.args]
            return CE.ceval(E.ExprOp(x.op, *args), {}, None)
        raise TypeError(x)
    return ev(e)
