"""adapt -- put miasm's expression layer into 'symbolic constant' mode (harness-side stubs only).

Nothing in /repo is edited.  In the checking process:
 1. the name `int` in the module globals of the listed modules is bound to symx.sym_int
    (int(SymInt) passes through, isinstance(SymInt, int) holds);
 2. hash-consing is replaced by its specification: Expr.use_singleton=False, ExprInt hashes
    independently of its value, Expr.__eq__ is structural with constant equality forking;
 3. memo caches are cleared at the start of each path (reset()).
"""
import importlib

from vf import symx
from vf.symx import SymInt, SymBool, sym_int

import miasm.expression.expression as E

STUBS = [
    "name `int`/`int_types` in module globals of the executed miasm modules bound to a pass-through "
    "(int(SymInt) is SymInt; isinstance(SymInt,int) True)",
    "hash-consing replaced by its specification: Expr.use_singleton=False, value-independent ExprInt "
    "hash, structural Expr.__eq__ forking on constant equality",
    "memo caches (ExpressionSimplifier.cache, canonize/contains visitor caches, Expr.canon_exprs, "
    "Expr.args2expr) cleared at the start of every path",
    "expression sizes / slice bounds that arrive as symbolic ints are concretised by exhaustive enumeration in "
    "the Expr constructors",
]

_DEFAULT_MODULES = [
    "miasm.expression.expression",
    "miasm.expression.simplifications_common",
    "miasm.expression.simplifications_explicit",
    "miasm.expression.simplifications_cond",
    "miasm.expression.simplifications",
    "miasm.expression.expression_helper",
    "miasm.core.modint",
    "miasm.core.utils",
]

_installed = [False]
_patched_modules = []


def patch_int(modname):
    mod = importlib.import_module(modname)
    mod.int = sym_int
    if mod not in _patched_modules:
        _patched_modules.append(mod)
    return mod


def _eq(self, other):
    if self is other:
        return True
    if self.__class__ is not other.__class__:
        return False
    if self._size != other._size:
        return False
    c = self.__class__
    if c is E.ExprInt:
        r = (self._arg == other._arg)
        return bool(r)
    if hash(self) != hash(other):
        return False
    if c is E.ExprId:
        return self._name == other._name
    if c is E.ExprLoc:
        return self._loc_key == other._loc_key
    if c is E.ExprSlice:
        return (self._start == other._start and self._stop == other._stop and
                _eq(self._arg, other._arg))
    if c is E.ExprMem:
        return _eq(self._ptr, other._ptr)
    if c is E.ExprCond:
        return (_eq(self._cond, other._cond) and _eq(self._src1, other._src1) and
                _eq(self._src2, other._src2))
    if c is E.ExprOp:
        if self._op != other._op or len(self._args) != len(other._args):
            return False
        return all(_eq(a, b) for a, b in zip(self._args, other._args))
    if c is E.ExprCompose:
        if len(self._args) != len(other._args):
            return False
        return all(_eq(a, b) for a, b in zip(self._args, other._args))
    if c is E.ExprAssign:
        return _eq(self._dst, other._dst) and _eq(self._src, other._src)
    raise TypeError(c)


def _ne(self, other):
    return not _eq(self, other)


def _concrete_args(cls, idxs, names=('size', 'start', 'stop')):
    import builtins
    on, oi = cls.__new__, cls.__init__

    def conv(args):
        return tuple(builtins.int(a) if (i in idxs and isinstance(a, SymInt)) else a
                     for i, a in enumerate(args))

    def convk(kw):
        return {k: (builtins.int(v) if (k in names and isinstance(v, SymInt)) else v)
                for k, v in kw.items()}

    def __new__(c, *args, **kw):
        return on(c, *conv(args), **convk(kw))

    def __init__(self, *args, **kw):
        return oi(self, *conv(args), **convk(kw))
    cls.__new__ = __new__
    cls.__init__ = __init__


def install(extra_modules=()):
    for m in list(_DEFAULT_MODULES) + list(extra_modules):
        patch_int(m)
    if _installed[0]:
        return
    _installed[0] = True
    E.int_types = sym_int
    E.Expr.use_singleton = False
    E.ExprInt._exprhash = lambda self: hash((E.EXPRINT, self._size))
    E.ExprInt._exprrepr = lambda self: "ExprInt(%s, %d)" % (self._arg, self._size)
    E.ExprInt.__str__ = lambda self: "%s" % (self._arg,)
    E.Expr.__eq__ = _eq
    E.Expr.__ne__ = _ne
    # sizes and slice bounds must be concrete python ints: concretise (exhaustive enumeration)
    _concrete_args(E.ExprInt, (1,))
    _concrete_args(E.ExprSlice, (1, 2))
    _concrete_args(E.ExprMem, (1,))
    _concrete_args(E.ExprId, (1,))
    # subclasses that define __eq__ nowhere inherit; ExprAssign etc. fine.


def reset():
    """Start of a path: drop every memo that could hold objects built under another path condition."""
    import miasm.expression.simplifications as S
    E.Expr.canon_exprs.clear()
    E.Expr.args2expr.clear()
    for s in (S.expr_simp, S.expr_simp_explicit, S.expr_simp_high_to_explicit):
        s.cache.clear()
    E.canonize_visitor.cache.clear()
    E.contains_visitor.cache.clear()


def structeq(a, b):
    """z3 Bool: a and b are the same expression (shape identical, constants equal).  False on any
    shape mismatch."""
    import z3
    if a.__class__ is not b.__class__ or a.size != b.size:
        return z3.BoolVal(False)
    c = a.__class__
    if c is E.ExprInt:
        from vf.refsem import bv_of_const
        return bv_of_const(a.arg, a.size) == bv_of_const(b.arg, b.size)
    if c is E.ExprId:
        return z3.BoolVal(a.name == b.name)
    if c is E.ExprLoc:
        return z3.BoolVal(a.loc_key == b.loc_key)
    if c is E.ExprSlice:
        if a.start != b.start or a.stop != b.stop:
            return z3.BoolVal(False)
        return structeq(a.arg, b.arg)
    if c is E.ExprMem:
        return structeq(a.ptr, b.ptr)
    if c is E.ExprCond:
        return z3.And(structeq(a.cond, b.cond), structeq(a.src1, b.src1), structeq(a.src2, b.src2))
    if c in (E.ExprOp, E.ExprCompose):
        if c is E.ExprOp and a.op != b.op:
            return z3.BoolVal(False)
        if len(a.args) != len(b.args):
            return z3.BoolVal(False)
        return z3.And(*[structeq(x, y) for x, y in zip(a.args, b.args)]) if a.args else z3.BoolVal(True)
    raise TypeError(c)


def concretize_expr(e, model_eval):
    """Rebuild e with every symbolic constant replaced by its value (model_eval: SymInt -> int)."""
    def cb(x):
        if x.is_int() and isinstance(x.arg, SymInt):
            return E.ExprInt(model_eval(x.arg), x.size)
        return x
    return e.visit(cb)


def expr_to_src(e, const_names=None):
    """Python source rebuilding e on unpatched miasm; symbolic constants are rendered through
    const_names (id(SymInt.z)->name) when given, else concretised."""
    if e.is_int():
        a = e.arg
        if isinstance(a, SymInt) and not a.is_concrete():
            return "ExprInt(%s, %d)" % (a.z.sexpr().replace('\n', ' '), e.size)
        return "ExprInt(0x%x, %d)" % (int(a), e.size)
    if e.is_id():
        return "ExprId(%r, %d)" % (e.name, e.size)
    if e.is_slice():
        return "ExprSlice(%s, %d, %d)" % (expr_to_src(e.arg), e.start, e.stop)
    if e.is_compose():
        return "ExprCompose(%s)" % ", ".join(expr_to_src(a) for a in e.args)
    if e.is_cond():
        return "ExprCond(%s, %s, %s)" % tuple(expr_to_src(a) for a in (e.cond, e.src1, e.src2))
    if e.is_mem():
        return "ExprMem(%s, %d)" % (expr_to_src(e.ptr), e.size)
    if e.is_op():
        return "ExprOp(%r, %s)" % (e.op, ", ".join(expr_to_src(a) for a in e.args))
    if e.is_loc():
        return "ExprLoc(LocKey(%d), %d)" % (e.loc_key.key, e.size)
    raise TypeError(e)
