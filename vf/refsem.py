"""refsem -- deliberately naive reference semantics of miasm expressions as z3 bit-vector terms.

Textbook fixed-width definitions only (no bit tricks): flags are computed by widened arithmetic,
condition codes from their meaning.  Operators without a fixed meaning are uninterpreted functions
named after operator and operand widths, so both sides of an equivalence see the same unknown.
`/` and `%` are unsigned (that is what miasm's own constant evaluation does).
"""
import z3

from vf.symx import SymInt


def bv_of_const(arg, size):
    if isinstance(arg, SymInt):
        # value taken modulo 2^size (two's complement of the exact python int)
        if arg.lo >= 0 and arg.w - 1 < size and arg.w > 1:
            # non-negative: the sign bit of the exact representation is 0 -- expose the zero bits
            return z3.ZeroExt(size - (arg.w - 1), z3.Extract(arg.w - 2, 0, arg.z))
        if arg.w > size:
            return z3.Extract(size - 1, 0, arg.z)
        if arg.w < size:
            return z3.SignExt(size - arg.w, arg.z)
        return arg.z
    return z3.BitVecVal(int(arg) % (1 << size), size)


def b2bv(c, size=1):
    return z3.If(c, z3.BitVecVal(1, size), z3.BitVecVal(0, size))


def clz(x, s):
    r = z3.BitVecVal(s, s)
    for i in range(s):
        r = z3.If(z3.Extract(i, i, x) == 1, z3.BitVecVal(s - 1 - i, s), r)
    return r


def ctz(x, s):
    r = z3.BitVecVal(s, s)
    for i in reversed(range(s)):
        r = z3.If(z3.Extract(i, i, x) == 1, z3.BitVecVal(i, s), r)
    return r


def shift_amount_ok(b, n):
    return z3.ULT(b, z3.BitVecVal(n, b.size())) if n < (1 << b.size()) else z3.BoolVal(True)


class Ref(object):
    """Expr -> z3.  mem_model: 'flat' (one 64-bit little-endian byte space, pointers wrap at their
    own width) or 'perwidth' (one array mem<N> per pointer width, byte order `endian`; mirrors the
    memory abstraction of the z3/SMT2 translators)."""

    def __init__(self, mem_model='flat', endian='<', prefix='', mem=None, ids=None,
                 bugs=frozenset()):
        self.ids = {} if ids is None else ids
        self.mem_model = mem_model
        self.endian = endian
        self.prefix = prefix
        self.mem = mem if mem is not None else z3.Function('MEM', z3.BitVecSort(64), z3.BitVecSort(8))
        self.mems = {}
        self.ufs = {}
        self.divisors = []     # z3 terms that are divisors of / % udiv umod sdiv smod
        self.bugs = bugs       # deliberately wrong variants for must-fail twins
        self.env = None        # optional: (name,size) -> z3 term override
        self.loc_db = None     # optional LocationDB: locations with a known offset are constants

    def var(self, name, size):
        k = (name, size)
        if self.env is not None and k in self.env:
            return self.env[k]
        if k not in self.ids:
            self.ids[k] = z3.BitVec("%s%s" % (self.prefix, name), size)
        return self.ids[k]

    def read_mem(self, p, psize, size):
        nbytes = (size + 7) // 8
        if self.mem_model == 'flat':
            bs = []
            for i in range(nbytes):
                a = p + z3.BitVecVal(i, psize)
                a64 = z3.ZeroExt(64 - psize, a) if psize < 64 else (
                    a if psize == 64 else z3.Extract(63, 0, a))
                bs.append(self.mem(a64))
        else:
            if psize not in self.mems:
                self.mems[psize] = z3.Array('mem%d' % psize, z3.BitVecSort(psize), z3.BitVecSort(8))
            arr = self.mems[psize]
            bs = [z3.Select(arr, p + z3.BitVecVal(i, psize)) for i in range(nbytes)]
            if self.endian == '>':
                bs = bs[::-1]
        r = bs[0]
        for b in bs[1:]:
            r = z3.Concat(b, r)
        if nbytes * 8 != size:
            r = z3.Extract(size - 1, 0, r)
        return r

    def uf(self, name, arg_sizes, size):
        k = (name, tuple(arg_sizes), size)
        if k not in self.ufs:
            sorts = [z3.BitVecSort(s) for s in arg_sizes] + [z3.BitVecSort(size)]
            self.ufs[k] = z3.Function("uf_%s_%s_%d" % (
                ''.join(c if c.isalnum() else '_' for c in name),
                '_'.join(map(str, arg_sizes)), size), *sorts)
        return self.ufs[k]

    def tr(self, e):
        if e.is_int():
            return bv_of_const(e.arg, e.size)
        if e.is_id():
            return self.var(e.name, e.size)
        if e.is_loc():
            off = None
            if getattr(self, 'loc_db', None) is not None:
                off = self.loc_db.get_location_offset(e.loc_key)
            if off is not None:
                return z3.BitVecVal(off % (1 << e.size), e.size)
            return self.var("loc_%s" % e.loc_key.key, e.size)
        if e.is_slice():
            return z3.Extract(e.stop - 1, e.start, self.tr(e.arg))
        if e.is_compose():
            args = [self.tr(a) for a in e.args]
            r = args[0]
            for a in args[1:]:
                r = z3.Concat(a, r)
            return r
        if e.is_cond():
            c = self.tr(e.cond)
            return z3.If(c != 0, self.tr(e.src1), self.tr(e.src2))
        if e.is_mem():
            return self.read_mem(self.tr(e.ptr), e.ptr.size, e.size)
        if e.is_op():
            return self.op(e)
        raise NotImplementedError(repr(e))

    def op(self, e):
        op = e.op
        n = e.size
        a = [self.tr(x) for x in e.args]
        asz = [x.size for x in e.args]
        if op in ('+', '*', '^', '&', '|'):
            r = a[0]
            for x in a[1:]:
                if op == '+':
                    r = r + x
                elif op == '*':
                    r = r * x
                elif op == '^':
                    r = r ^ x
                elif op == '&':
                    r = r & x
                else:
                    r = r | x
            return r
        if op == '-':
            if len(a) == 1:
                return -a[0]
            if len(a) == 2:
                return a[0] - a[1]
        if len(a) == 2 and asz[0] == asz[1]:
            x, y = a
            s = asz[0]
            if op == '<<':
                return x << y
            if op == '>>':
                return z3.LShR(x, y)
            if op == 'a>>':
                if 'ashr_as_lshr' in self.bugs:
                    return z3.LShR(x, y)
                return x >> y
            if op == '<<<':
                return z3.RotateLeft(x, z3.URem(y, z3.BitVecVal(s, s)) if s & (s - 1) else y)
            if op == '>>>':
                return z3.RotateRight(x, z3.URem(y, z3.BitVecVal(s, s)) if s & (s - 1) else y)
            if op in ('/', 'udiv'):
                self.divisors.append(y)
                return z3.UDiv(x, y)
            if op in ('%', 'umod'):
                self.divisors.append(y)
                return z3.URem(x, y)
            if op == 'sdiv':
                self.divisors.append(y)
                return x / y
            if op == 'smod':
                self.divisors.append(y)
                return z3.SRem(x, y)
            if op == '==':
                return b2bv(x == y)
            if op == '<u':
                return b2bv(z3.ULT(x, y))
            if op == '<=u':
                return b2bv(z3.ULE(x, y))
            if op == '<s':
                return b2bv(x < y)
            if op == '<=s':
                return b2bv(x <= y)
        if op.startswith('zeroExt_') and len(a) == 1:
            return z3.ZeroExt(n - asz[0], a[0])
        if op.startswith('signExt_') and len(a) == 1:
            return z3.SignExt(n - asz[0], a[0])
        if op == 'parity' and len(a) == 1:
            r = z3.BitVecVal(1, 1)
            for i in range(min(8, asz[0])):
                r = r ^ z3.Extract(i, i, a[0])
            return r
        if op == 'cntleadzeros' and len(a) == 1:
            return clz(a[0], asz[0])
        if op == 'cnttrailzeros' and len(a) == 1:
            return ctz(a[0], asz[0])
        if op == '**' and len(a) == 2 and z3.is_bv_value(a[1]) and a[1].as_long() <= 64:
            r = z3.BitVecVal(1, n)
            for _ in range(a[1].as_long()):
                r = r * a[0]
            return r
        r = self.flag_op(op, a, asz)
        if r is not None:
            return r
        # uninterpreted
        return self.uf(op, asz, n)(*a)

    # flags by widened arithmetic, condition codes by meaning
    def flag_op(self, op, a, asz):
        def zx(x, k):
            return z3.ZeroExt(k, x)

        def sx(x, k):
            return z3.SignExt(k, x)
        if op == 'FLAG_EQ' and len(a) == 1:
            return b2bv(a[0] == 0)
        if len(a) == 2 and asz[0] == asz[1]:
            x, y = a
            s = asz[0]
            if op == 'FLAG_EQ_AND':
                return b2bv((x & y) == 0)
            if op == 'FLAG_EQ_CMP':
                return b2bv(x == y)
            if op == 'FLAG_SIGN_SUB':
                return z3.Extract(s - 1, s - 1, x - y)
            if op == 'FLAG_SIGN_ADD':
                return z3.Extract(s - 1, s - 1, x + y)
            if op == 'FLAG_ADD_CF':
                return z3.Extract(s, s, zx(x, 1) + zx(y, 1))
            if op == 'FLAG_SUB_CF':
                return b2bv(z3.ULT(x, y))
            if op == 'FLAG_ADD_OF':
                w = sx(x, 1) + sx(y, 1)
                return b2bv(w != sx(z3.Extract(s - 1, 0, w), 1))
            if op == 'FLAG_SUB_OF':
                w = sx(x, 1) - sx(y, 1)
                return b2bv(w != sx(z3.Extract(s - 1, 0, w), 1))
        if len(a) == 3 and asz[0] == asz[1] and asz[2] <= asz[0]:
            x, y, c = a
            s = asz[0]
            cz = z3.ZeroExt(s - asz[2], c) if asz[2] < s else c
            if op == 'FLAG_EQ_ADDWC':
                return b2bv(x + y + cz == 0)
            if op == 'FLAG_EQ_SUBWC':
                return b2bv(x - (y + cz) == 0)
            if op == 'FLAG_SIGN_ADDWC':
                return z3.Extract(s - 1, s - 1, x + y + cz)
            if op == 'FLAG_SIGN_SUBWC':
                return z3.Extract(s - 1, s - 1, x - (y + cz))
            if asz[2] == 1:
                # carry/overflow with a carry-in bit: exact arithmetic at width s+2
                if op == 'FLAG_ADDWC_CF':
                    return z3.Extract(s, s, zx(x, 2) + zx(y, 2) + zx(cz, 2))
                if op == 'FLAG_SUBWC_CF':
                    return b2bv(z3.ULT(zx(x, 2), zx(y, 2) + zx(cz, 2)))
                if op == 'FLAG_ADDWC_OF':
                    w = sx(x, 2) + sx(y, 2) + zx(cz, 2)
                    return b2bv(w != sx(z3.Extract(s - 1, 0, w), 2))
                if op == 'FLAG_SUBWC_OF':
                    w = sx(x, 2) - sx(y, 2) - zx(cz, 2)
                    return b2bv(w != sx(z3.Extract(s - 1, 0, w), 2))
        if all(s == 1 for s in asz):
            one = z3.BitVecVal(1, 1)

            def t(c):
                return b2bv(c)
            if op == 'CC_U<=' and len(a) == 2:
                return t(z3.Or(a[0] == one, a[1] == one))
            if op == 'CC_U>' and len(a) == 2:
                return t(z3.And(a[0] != one, a[1] != one))
            if op == 'CC_U>=' and len(a) == 1:
                return t(a[0] != one)
            if op == 'CC_U<' and len(a) == 1:
                return t(a[0] == one)
            if op == 'CC_S<' and len(a) == 2:
                return t(a[0] != a[1])
            if op == 'CC_S>=' and len(a) == 2:
                return t(a[0] == a[1])
            if op == 'CC_S>' and len(a) == 3:
                return t(z3.And(a[2] != one, a[0] == a[1]))
            if op == 'CC_S<=' and len(a) == 3:
                return t(z3.Or(a[2] == one, a[0] != a[1]))
            if op == 'CC_NEG' and len(a) == 1:
                return a[0]
            if op == 'CC_POS' and len(a) == 1:
                return t(a[0] != one)
            if op == 'CC_EQ' and len(a) == 1:
                return a[0]
            if op == 'CC_NE' and len(a) == 1:
                return t(a[0] != one)
        return None

    def nonzero_divisors(self):
        return [d != 0 for d in self.divisors]


def bcdadd_ref(x, y, size):
    """bcdadd/bcdadd_cf over the low 16 bits: 4 decimal digits with carry (textbook)."""
    carry = z3.BitVecVal(0, 8)
    res = z3.BitVecVal(0, size)
    for i in range(0, 16, 4):
        n1 = z3.ZeroExt(4, z3.Extract(i + 3, i, x))
        n2 = z3.ZeroExt(4, z3.Extract(i + 3, i, y))
        j = carry + n1 + n2
        ge = z3.UGE(j, 10)
        d = z3.If(ge, (j - 10) & 0xF, j)
        carry = z3.If(ge, z3.BitVecVal(1, 8), z3.BitVecVal(0, 8))
        dz = z3.ZeroExt(size - 8, d) if size > 8 else z3.Extract(size - 1, 0, d)
        res = res + (dz << i)
    return res, z3.Extract(0, 0, carry)
