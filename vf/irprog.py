"""Program supply and graph equivalence for C36 / C37 / C39 / C40.

Programs are IR graphs over x86_32 registers (so that the real LifterModelCall provides out-registers etc.):
 (i)  generated: CFG skeleton x statement grammar (seeded, deterministic);
 (ii) lifted: small functions assembled from x86_32 text by miasm's own assembler, disassembled and lifted.
The quantifier over programs is an enumeration; the quantifier over initial states is discharged by z3.
"""
import random

REGS = ['EAX', 'EBX', 'ECX', 'EDX', 'ESI', 'EDI']


def R(n):
    return "ExprId(%r, 32)" % n


def C(v):
    return "ExprInt(0x%x, 32)" % (v & 0xFFFFFFFF)


def L(name):
    return "LOC(%r)" % name


def O(op, *a):
    return "ExprOp(%r, %s)" % (op, ", ".join(a))


def M(ptr, sz=32):
    return "ExprMem(%s, %d)" % (ptr, sz)


def K(c, a, b):
    return "ExprCond(%s, %s, %s)" % (c, a, b)


IRDST = "ExprId('IRDst', 32)"
RETBLK = [[(R('ESP'), O('+', R('ESP'), C(4))), (IRDST, M(R('ESP')))]]


class Gen(object):
    def __init__(self, rnd, regs=None):
        self.rnd = rnd
        self.regs = regs or REGS[:4]

    def reg(self):
        return self.rnd.choice(self.regs)

    def ptr(self):
        r = self.rnd
        c = r.random()
        if c < 0.45:
            return O('+', R('ESP'), C(r.choice([4, 8, 12, 16, 0xFFFFFFFC])))
        if c < 0.7:
            return O('+', R('ESI'), C(r.choice([0, 2, 4, 8])))
        if c < 0.8:
            return R(r.choice(['ESI', 'EDI']))
        if c < 0.9:
            return C(r.choice([0x2000, 0x2004, 0x2002]))
        return O('+', R(self.reg()), C(4))

    def expr(self, depth=0):
        r = self.rnd
        c = r.random()
        if c < 0.3 or depth >= 2:
            return R(self.reg())
        if c < 0.42:
            return C(r.choice([0, 1, 2, 3, 0x10, 0xFFFFFFFF, 0x80000000]))
        if c < 0.56:
            return M(self.ptr())
        if c < 0.86:
            return O(r.choice(['+', '+', '^', '&', '|', '-', '<<', '>>', '*']), self.expr(depth + 1), self.expr(depth + 1)) \
                if r.random() < 0.9 else O('-', self.expr(depth + 1))
        if c < 0.93:
            return "ExprCompose(ExprSlice(%s, 0, 16), ExprSlice(%s, 16, 32))" % (self.expr(depth + 1), self.expr(depth + 1))
        return K(R(self.reg()), self.expr(depth + 1), self.expr(depth + 1))

    def cond(self):
        r = self.rnd
        c = r.random()
        x = R(self.reg())
        if c < 0.35:
            return O('&', x, C(r.choice([1, 2, 0x80000000])))
        if c < 0.6:
            return O('+', x, C(-r.choice([1, 2, 3])))
        if c < 0.8:
            return O('<u' if r.random() < 0.5 else '<s', x, R(self.reg()))
        return x

    def body(self, nmin=1, nmax=3, allow_store=True):
        abs_ = []
        for _ in range(self.rnd.randint(nmin, nmax)):
            c = self.rnd.random()
            if c < 0.12:
                a, b = self.rnd.sample(self.regs, 2)
                abs_.append([(R(a), R(b)), (R(b), R(a))])        # swap in one parallel assignment
            elif c < 0.32 and allow_store:
                abs_.append([(M(self.ptr()), self.expr())])
            elif c < 0.42:
                a, b = self.rnd.sample(self.regs, 2)
                abs_.append([(R(a), self.expr()), (R(b), self.expr())])
            else:
                abs_.append([(R(self.reg()), self.expr())])
        return abs_


def jmp(name):
    return [[(IRDST, L(name))]]


def br(cond, t, f):
    return [[(IRDST, K(cond, L(t), L(f)))]]


def dump_regs_block(regs):
    # one store per AssignBlock: parallel stores have no defined order
    return [[(M(C(0x1000 + 4 * i)), R(r))] for i, r in enumerate(regs)]


def gen_program(rnd, skeleton=None, dump=True):
    """-> dict(head, blocks={name: [assignblk,...]}, skeleton)"""
    g = Gen(rnd)
    sk = skeleton or rnd.choice(SKELETONS)
    B = {}
    ex = (dump_regs_block(g.regs) if dump else []) + RETBLK
    if sk == 'straight':
        B['B0'] = g.body(2, 5) + jmp('B1')
        B['B1'] = g.body(1, 4) + jmp('EX')
    elif sk == 'diamond':
        B['B0'] = g.body(1, 3) + br(g.cond(), 'B1', 'B2')
        B['B1'] = g.body(1, 3) + jmp('B3')
        B['B2'] = g.body(1, 3) + jmp('B3')
        B['B3'] = g.body(1, 2) + jmp('EX')
    elif sk == 'nested-diamond':
        B['B0'] = g.body(1, 2) + br(g.cond(), 'B1', 'J')
        B['B1'] = g.body(0, 1) + br(g.cond(), 'B2', 'J1')
        B['B2'] = g.body(1, 2) + jmp('J1')
        B['J1'] = g.body(0, 1) + jmp('J')
        B['J'] = g.body(1, 2) + jmp('EX')
    elif sk == 'nested-join-consts':
        # constants meeting at nested joins: J is reached from A (x, y known) and from M, itself the join of C and D where y
        # takes two different constants; every other register is the same on all paths (no flags, no other assignment)
        x, y, z = rnd.sample(g.regs, 3)
        k1, k2, k3 = rnd.sample([1, 2, 3, 5, 8, 13, 0x100], 3)
        B['B0'] = [[(R(x), C(k1))]] + br(g.cond(), 'A', 'B')
        B['A'] = [[(R(y), C(k2))]] + jmp('J')
        B['B'] = br(g.cond(), 'C', 'D')
        B['C'] = [[(R(y), C(k2))]] + jmp('M')
        B['D'] = [[(R(y), C(k3))]] + jmp('M')
        B['M'] = jmp('J')
        B['J'] = [[(R(z), O('+', R(y), R(x)))]] + jmp('EX')
    elif sk == 'self-loop':
        B['B0'] = g.body(1, 2) + [[(R('ECX'), O('&', R('ECX'), C(3)))]] + jmp('LP')
        B['LP'] = g.body(1, 3) + [[(R('ECX'), O('+', R('ECX'), C(-1)))]] + br(R('ECX'), 'LP', 'EX')
    elif sk == 'while':
        B['B0'] = g.body(1, 2) + jmp('H')
        B['H'] = br(g.cond(), 'BODY', 'EX')
        B['BODY'] = g.body(1, 3) + jmp('H')
    elif sk == 'loop-through-head':
        B['H'] = g.body(1, 2) + br(g.cond(), 'BODY', 'EX')
        B['BODY'] = g.body(1, 2) + jmp('H')
    elif sk == 'nested-loop':
        B['L0'] = [[(R('EDX'), C(0))]] + jmp('OH')
        B['OH'] = [[(R('ECX'), C(0))]] + jmp('IH')
        B['IH'] = br(O('+', R('ECX'), C(-2)), 'B', 'OL')
        B['B'] = g.body(1, 2, allow_store=False) + [[(R('ECX'), O('+', R('ECX'), C(1)))]] + jmp('IH')
        B['OL'] = [[(R('EDX'), O('+', R('EDX'), C(1)))]] + br(O('+', R('EDX'), C(-2)), 'OH', 'EX')
    elif sk == 'irreducible':
        B['B0'] = g.body(1, 2) + br(g.cond(), 'X', 'Y')
        B['X'] = g.body(1, 2) + br(g.cond(), 'Y', 'EX')
        B['Y'] = g.body(1, 2) + br(g.cond(), 'X', 'EX')
    elif sk == 'swap-loop':
        B['B0'] = g.body(0, 1) + [[(R('ECX'), O('&', R('ECX'), C(3)))]] + jmp('H')
        B['H'] = br(R('ECX'), 'BODY', 'EX')
        B['BODY'] = [[(R('EAX'), R('EBX')), (R('EBX'), R('EAX'))], [(R('ECX'), O('+', R('ECX'), C(-1)))]] + g.body(0, 1) + jmp('H')
    elif sk == 'lost-copy':
        B['B0'] = [[(R('EBX'), g.expr())]] + jmp('LP')
        B['LP'] = [[(R('EAX'), R('EBX'))], [(R('EBX'), O('+', R('EBX'), C(1)))]] + g.body(0, 1) + br(g.cond(), 'LP', 'EX')
    elif sk == 'pointer-walk':
        B['B0'] = [[(R('ECX'), O('&', R('ECX'), C(3)))]] + jmp('LP')
        B['LP'] = [[(R('EDI'), R('ESI'))], [(R('ESI'), O('+', R('ESI'), C(4)))], [(R('EDX'), O('+', R('EDX'), M(R('EDI'))))],
                   [(R('ECX'), O('+', R('ECX'), C(-1)))]] + br(R('ECX'), 'LP', 'OUT')
        B['OUT'] = [[(M(C(0x2000)), M(R('EDI')))], [(M(R('EDI')), C(0x55))], [(R('EAX'), R('EDX'))]] + jmp('EX')
    elif sk == 'store-reload':
        off = rnd.choice([4, 3, 2, 1])
        B['B0'] = [[(M(O('+', R('EBP'), C(-4))), R('EAX'))],
                   [("ExprMem(%s, 8)" % O('+', R('EBP'), C(-off)), "ExprSlice(%s, 0, 8)" % R('ECX'))],
                   [(R('EAX'), M(O('+', R('EBP'), C(-4))))]] + br(g.cond(), 'B1', 'EX')
        B['B1'] = g.body(1, 2) + jmp('EX')
    elif sk == 'merge-pointer':
        # a pointer register that differs between incoming paths is used for a load, then modified, then the
        # loaded value is used
        p = rnd.choice(['ESI', 'EDI'])
        q = 'EDX' if rnd.random() < 0.5 else 'EBX'
        B['B0'] = g.body(0, 1) + br(g.cond(), 'B1', 'B2')
        B['B1'] = [[(R(p), O('+', R(p), C(rnd.choice([4, 8]))))]] + g.body(0, 1, allow_store=False) + jmp('J')
        B['B2'] = [[(R(p), O('+', R(p), C(rnd.choice([12, 16]))))]] + jmp('J')
        B['J'] = [[(R(q), M(R(p)))], [(R(p), O('+', R(p), C(4)))]] + g.body(0, 1, allow_store=False) + \
                 [[(R('ECX'), R(q))], [(R('EAX'), O('+', R('EAX'), R(q)))]] + br(g.cond(), 'J', 'EX')
    elif sk == 'merge-save-restore':
        # a register unknown after a merge is saved, overwritten by a constant, restored, then used
        r1, r2 = rnd.sample(['EAX', 'EBX', 'ECX', 'EDX'], 2)
        B['B0'] = g.body(0, 1) + br(g.cond(), 'B1', 'B2')
        B['B1'] = [[(R(r1), g.expr())]] + jmp('J')
        B['B2'] = [[(R(r1), g.expr())]] + jmp('J')
        B['J'] = [[(R(r2), R(r1))], [(R(r1), C(rnd.choice([5, 0, 0x10])))]] + g.body(0, 2, allow_store=True) + \
                 [[(R(r1), R(r2))], [(R('EDI'), R(r1))], [(M(C(0x2010)), R('EDI'))]] + jmp('EX')
    else:
        raise ValueError(sk)
    B['EX'] = ex
    head = [k for k in B][0]
    return dict(head=head, blocks=B, skeleton=sk)


SKELETONS = ['straight', 'diamond', 'nested-diamond', 'self-loop', 'while', 'loop-through-head', 'nested-loop', 'irreducible',
             'swap-loop', 'lost-copy', 'pointer-walk', 'store-reload', 'merge-pointer', 'merge-save-restore',
             'nested-join-consts']                 # appended: earlier program ids are unchanged

X86_FUNCS = [
    ("abs", "main:\n  MOV EAX, DWORD PTR [ESP+4]\n  TEST EAX, EAX\n  JNS done\n  NEG EAX\ndone:\n  RET\n"),
    ("max", "main:\n  MOV EAX, DWORD PTR [ESP+4]\n  MOV ECX, DWORD PTR [ESP+8]\n  CMP EAX, ECX\n  JGE done\n  MOV EAX, ECX\ndone:\n  RET\n"),
    ("sum", "main:\n  PUSH EBP\n  MOV EBP, ESP\n  MOV ECX, DWORD PTR [EBP+8]\n  AND ECX, 3\n  XOR EAX, EAX\nlp:\n  TEST ECX, ECX\n  JZ done\n  ADD EAX, ECX\n  DEC ECX\n  JMP lp\ndone:\n  POP EBP\n  RET\n"),
    ("locals", "main:\n  PUSH EBP\n  MOV EBP, ESP\n  SUB ESP, 8\n  MOV DWORD PTR [EBP-4], EAX\n  MOV BYTE PTR [EBP-2], CL\n  MOV EAX, DWORD PTR [EBP-4]\n  MOV ESP, EBP\n  POP EBP\n  RET\n"),
    ("nested", "main:\n  MOV EAX, DWORD PTR [ESP+4]\n  MOV EDX, DWORD PTR [ESP+8]\n  TEST EDX, 1\n  JZ out\n  TEST EDX, 2\n  JZ inner_join\n  ADD EAX, 0x11\ninner_join:\n  XOR EDX, EDX\nout:\n  LEA EAX, DWORD PTR [EAX+EAX*2]\n  RET\n"),
    ("memwalk", "main:\n  MOV ESI, DWORD PTR [ESP+4]\n  MOV ECX, DWORD PTR [ESP+8]\n  AND ECX, 3\n  XOR EAX, EAX\nlp:\n  TEST ECX, ECX\n  JZ done\n  ADD EAX, DWORD PTR [ESI]\n  ADD ESI, 4\n  DEC ECX\n  JMP lp\ndone:\n  RET\n"),
    ("swap", "main:\n  MOV EAX, DWORD PTR [ESP+4]\n  MOV EDX, DWORD PTR [ESP+8]\n  MOV ECX, DWORD PTR [ESP+12]\n  AND ECX, 3\nlp:\n  TEST ECX, ECX\n  JZ done\n  XCHG EAX, EDX\n  DEC ECX\n  JMP lp\ndone:\n  SUB EAX, EDX\n  RET\n"),
    ("store", "main:\n  MOV EAX, DWORD PTR [ESP+4]\n  MOV ECX, DWORD PTR [ESP+8]\n  MOV DWORD PTR [EAX], ECX\n  MOV DWORD PTR [EAX+4], ECX\n  MOV EDX, DWORD PTR [EAX+2]\n  ADD EDX, ECX\n  MOV DWORD PTR [EAX+8], EDX\n  MOV EAX, EDX\n  RET\n"),
    ("pushpop", "main:\n  PUSH EBX\n  MOV EBX, DWORD PTR [ESP+8]\n  PUSH EAX\n  MOV EAX, 5\n  ADD EBX, EAX\n  POP EAX\n  MOV EDI, EAX\n  ADD EAX, EBX\n  POP EBX\n  RET\n"),
    ("ptrloop", "main:\n  MOV ESI, DWORD PTR [ESP+4]\n  MOV ECX, DWORD PTR [ESP+8]\n  AND ECX, 3\n  XOR EBX, EBX\nlp:\n  TEST ECX, ECX\n  JZ done\n  MOV EAX, DWORD PTR [ESI]\n  ADD ESI, 4\n  ADD EBX, EAX\n  DEC ECX\n  JMP lp\ndone:\n  MOV EAX, EBX\n  RET\n"),
    ("saverestore", "main:\n  MOV EAX, DWORD PTR [ESP+4]\n  TEST EAX, 1\n  JZ other\n  ADD EAX, 7\n  JMP join\nother:\n  SHL EAX, 1\njoin:\n  PUSH EAX\n  MOV EAX, 5\n  ADD ECX, EAX\n  POP EAX\n  MOV EDI, EAX\n  ADD EAX, EDI\n  RET\n"),
    ("cmov", "main:\n  MOV EAX, DWORD PTR [ESP+4]\n  MOV ECX, DWORD PTR [ESP+8]\n  CMP EAX, ECX\n  CMOVB EAX, ECX\n  SHL EAX, 2\n  RET\n"),
    # appended after the second seeding round (ids of the programs above are unchanged)
    # store through a doubly indirect pointer selected by a branch: the only use of ESI is inside the store address
    ("dblindirect", "main:\n  MOV ESI, EDX\n  TEST EAX, EAX\n  JNZ join\n  MOV ESI, EBX\njoin:\n  MOV ECX, DWORD PTR [ESI]\n  MOV DWORD PTR [ECX], EDI\n  XOR EAX, EAX\n  RET\n"),
    # nested joins with constants: J is reached from A (EBX known) and from M, itself a join where EBX is not constant
    ("nestedjoin", "main:\n  MOV EAX, 5\n  TEST EDX, 1\n  JZ b\n  MOV EBX, 3\n  JMP j\nb:\n  TEST EDX, 2\n  JZ d\n  MOV EBX, 3\n  JMP m\nd:\n  MOV EBX, 4\nm:\n  MOV EDI, 1\nj:\n  LEA ECX, DWORD PTR [EBX+EAX]\n  MOV EAX, ECX\n  RET\n"),
    # a load assembled from constant stores of different sizes
    ("constparts", "main:\n  SUB ESP, 8\n  MOV BYTE PTR [ESP], 0x11\n  MOV WORD PTR [ESP+1], 0x2233\n  MOV BYTE PTR [ESP+3], 0x44\n  MOV EAX, DWORD PTR [ESP]\n  ADD EAX, 1\n  ADD ESP, 8\n  RET\n"),
]


def make_lifter(loc_db, model_call=True):
    from miasm.analysis.machine import Machine
    m = Machine('x86_32')
    return m, (m.lifter_model_call(loc_db) if model_call else m.lifter(loc_db))


def build_generated(spec, loc_db, lifter):
    """-> (ircfg, head LocKey)"""
    import miasm.expression.expression as E
    from miasm.ir.ir import IRBlock, AssignBlock
    names = {}

    def LOC(name):
        if name not in names:
            names[name] = loc_db.add_location(name)
        return E.ExprLoc(names[name], 32)
    env = dict(ExprId=E.ExprId, ExprInt=E.ExprInt, ExprOp=E.ExprOp, ExprSlice=E.ExprSlice, ExprCompose=E.ExprCompose,
               ExprCond=E.ExprCond, ExprMem=E.ExprMem, LOC=LOC)
    ircfg = lifter.new_ircfg()
    for name in spec['blocks']:
        LOC(name)
    for name, abs_ in spec['blocks'].items():
        lst = []
        for ab in abs_:
            lst.append(AssignBlock({eval(d, dict(env)): eval(s, dict(env)) for d, s in ab}))
        ircfg.add_irblock(IRBlock(loc_db, names[name], lst))
    return ircfg, names[spec['head']]


def build_lifted(text, loc_db, machine, lifter):
    from miasm.core import parse_asm, asmblock
    from miasm.core.interval import interval
    from miasm.analysis.binary import Container
    asmcfg = parse_asm.parse_txt(machine.mn, 32, text, loc_db)
    loc_db.set_location_offset(loc_db.get_name_location("main"), 0x1000)
    patches = asmblock.asm_resolve_final(machine.mn, asmcfg, dst_interval=interval([(0x1000, 0x1800)]))
    code = bytearray(0x200)
    lo = min(patches)
    for off, data in patches.items():
        code[off - lo:off - lo + len(data)] = data
    cont = Container.from_string(bytes(code), loc_db, addr=lo)
    mdis = machine.dis_engine(cont.bin_stream, loc_db=loc_db)
    mdis.follow_call = False
    acfg = mdis.dis_multiblock(0x1000)
    ircfg = lifter.new_ircfg_from_asmcfg(acfg)
    return ircfg, loc_db.get_offset_location(0x1000)


def copy_graph(ircfg):
    from miasm.ir.ir import IRCFG
    new = IRCFG(ircfg.IRDst, ircfg.loc_db)
    for blk in ircfg.blocks.values():
        new.add_irblock(blk)
    return new


def dump_graph(ircfg, limit=1500):
    out = []
    for loc, blk in sorted(ircfg.blocks.items(), key=lambda x: str(x[0])):
        out.append("%s:" % ircfg.loc_db.pretty_str(loc))
        for ab in blk:
            out.append("    { " + " ; ".join("%s = %s" % (d, s) for d, s in ab.items()) + " }")
    return "\n".join(out)[:limit]


def read_through(state, reg, mapping):
    """Value of original register `reg` at the end of a path of a transformed graph: the most recently assigned
    variable that stands for it (mapping: variable -> original register), else its initial value."""
    for (name, size) in reversed(getattr(state, 'order', [])):
        if (name == reg.name and size == reg.size):
            return state.reg(name, size)
        for v, orig in mapping.items():
            if v.name == name and v.size == size and orig == reg:
                return state.reg(name, size)
    return state.reg(reg.name, reg.size)


def compare_graphs(g1, g2, head1, head2, irdst, loc_db, out_regs=(), mapping=None, all_regs=None, max_blocks=40, max_visits=8,
                   timeout_ms=15000, check_events=True, check_exit=True, pre=None, budget_s=25):
    """For every bounded path of g1 and every path of g2 under the same path condition: z3 proves equal events, exit,
    final memory and output registers for all initial states.  -> dict(nob, ndis, viol[], inc[], cut, paths)."""
    import z3
    from vf.refsem import Ref
    from vf import irsym
    ref0 = Ref()
    ref0.loc_db = loc_db
    ex1 = irsym.Explorer(g1, irdst, loc_db, max_blocks, max_visits, timeout_ms)
    ex2 = irsym.Explorer(g2, irdst, loc_db, max_blocks * 2, max_visits + 1, timeout_ms, track_order=True)
    out = dict(nob=0, ndis=0, viol=[], inc=[], cut=0, paths=0, queries=0)
    import time
    t_end = time.time() + budget_s
    ex1.deadline = ex2.deadline = t_end
    p1s = ex1.run(head1, ref0, pre=list(pre or []))
    s = z3.Solver()
    s.set('timeout', timeout_ms)
    probe = z3.BitVec('probe_addr', 64)
    for p1 in p1s:
        if p1.cut:
            out['cut'] += 1
            continue
        if time.time() > t_end:
            out['inc'].append("wall-clock budget of %d s per program exhausted" % budget_s)
            break
        out['paths'] += 1
        p2s = ex2.run(head2, ref0, pre=p1.pc)
        for p2 in p2s:
            if p2.cut:
                out['inc'].append("transformed graph exceeds the exploration bound on a path of the original")
                continue
            obs = []
            if check_exit:
                x = irsym.exits_equal(p1.exit, p2.exit)
                obs.append(('same-exit', x if x is not None else z3.BoolVal(False)))
            if check_events:
                # no invented writes: every byte address written by the transformed graph is written by the original
                w1 = [e[1] for e in p1.state.events if e[0] == 'write']
                for k, e in enumerate(p2.state.events):
                    if e[0] == 'write':
                        obs.append(('no-new-memory-write', z3.Or(*[e[1] == a for a in w1]) if w1 else z3.BoolVal(False)))
            obs.append(('same-final-memory', p1.state.load(probe) == p2.state.load(probe)))
            for r in out_regs:
                v2 = read_through(p2.state, r, mapping or {})
                obs.append(('same-%s' % r.name, p1.state.reg(r.name, r.size) == v2))
            for r in (all_regs or []):
                obs.append(('same-%s' % r.name, p1.state.reg(r.name, r.size) == p2.state.reg(r.name, r.size)))
            s.push()
            s.add(*p2.pc)
            hyp = irsym.non_aliasing_hypotheses([p1.state.accesses, p2.state.accesses])
            if hyp:
                s.add(*hyp)
            # vacuity guard: path condition + hypotheses must be satisfiable
            out['queries'] += 1
            if s.check() != z3.sat:
                out['inc'].append("path condition with non-aliasing hypotheses is not satisfiable (path skipped)")
                s.pop()
                continue
            for name, f in obs:
                out['nob'] += 1
                s.push()
                s.add(z3.Not(f))
                r = s.check()
                out['queries'] += 1
                if r == z3.unsat:
                    out['ndis'] += 1
                elif r == z3.unknown:
                    out['inc'].append(name)
                else:
                    m = s.model()
                    ids = {k[0]: m.eval(v, model_completion=True).as_long() for k, v in ref0.ids.items()}
                    memb = {}
                    for a in list(p1.state.accesses) + list(p2.state.accesses):
                        av = m.eval(a, model_completion=True).as_long()
                        memb[str(av)] = m.eval(ref0.mem(z3.BitVecVal(av, 64)), model_completion=True).as_long()
                    out['viol'].append(dict(ob=name, ids=ids, inputs=ids, membytes=memb,
                                            path1=[loc_db.pretty_str(b) for b in p1.blocks],
                                            path2=[loc_db.pretty_str(b) for b in p2.blocks]))
                s.pop()
                if out['viol']:
                    break
            s.pop()
            if out['viol']:
                break
        if out['viol']:
            break
    out['queries'] += ex1.queries + ex2.queries
    return out


def concrete_run(g, head, irdst, loc_db, regs, mem, max_blocks=200):
    """Independent concrete interpretation (vf/ceval.py) of an IR graph.  regs: name -> int, mem: addr -> byte.
    -> dict(exit, regs, mem, order, trace)"""
    from vf.ceval import ceval
    regs = dict(regs)
    mem = dict(mem)
    order = []
    trace = []
    loc = head

    def rd(a):
        return mem.get(a & 0xFFFFFFFF, 0)

    class Env(dict):
        def __missing__(self, k):
            return 0
    for _ in range(max_blocks):
        blk = g.blocks.get(loc)
        if blk is None:
            return dict(exit=('loc', str(loc)), regs=regs, mem=mem, order=order, trace=trace)
        trace.append(loc_db.pretty_str(loc))
        nxt = None
        for ab in blk:
            env = Env(regs)
            new_regs, new_mem = {}, []
            for d, s_ in ab.items():
                if d == irdst:
                    e = s_
                    while e.is_cond():
                        e = e.src1 if ceval(e.cond, env, rd) else e.src2
                    if e.is_loc():
                        nxt = ('loc', e.loc_key)
                    elif e.is_int() and loc_db.get_offset_location(int(e)) is not None:
                        nxt = ('loc', loc_db.get_offset_location(int(e)))
                    else:
                        nxt = ('val', ceval(e, env, rd))
                    continue
                v = ceval(s_, env, rd)
                if d.is_mem():
                    new_mem.append((ceval(d.ptr, env, rd), d.size, v))
                else:
                    new_regs[d.name] = v
                    order.append(d.name)
            regs.update(new_regs)
            for a, size, v in new_mem:
                for i in range(size // 8):
                    mem[(a + i) & 0xFFFFFFFF] = (v >> (8 * i)) & 0xff
        if nxt is None:
            return dict(exit=('none', None), regs=regs, mem=mem, order=order, trace=trace)
        if nxt[0] == 'val' or nxt[1] not in g.blocks:
            return dict(exit=(nxt[0], str(nxt[1])), regs=regs, mem=mem, order=order, trace=trace)
        loc = nxt[1]
    return dict(exit=('timeout', None), regs=regs, mem=mem, order=order, trace=trace)
