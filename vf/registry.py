"""Registry of claimed checks and not-applicable properties; bin/mkmanifest renders MANIFEST.json."""

CLAIMED = {
    # id: dict(level, text, note, technique, design_ref)
    'C03': dict(
        level='other',
        text="Bounded symbolic verification: the real constant-folding code (expr_simp, modint) runs on "
             "symbolic operands via proxy ints; per path z3 proves result == two's-complement reference for "
             "every operand value at each listed width. Holds within the listed widths only.",
        note="Trusted: z3, vf/refsem.py (naive reference semantics), vf/symx.py proxy engine; harness-side "
             "stubs listed in evidence (int pass-through, hash-consing replaced by structural equality).",
        technique="symbolic execution of the real Python (proxy ints) + z3 validity queries per path",
        design_ref="DESIGN.md §3 C03"),
}

CLAIMED['C01'] = dict(
    level='other',
    text="Bounded symbolic verification of the real simplifier (all three shipped configurations): every constant of "
         "a template is a solver variable while the real rewrite passes run (each comparison on a constant forks), and "
         "per path z3 proves refsem(original) == refsem(result) for all identifier/memory/constant values. Templates: "
         "511 rule-directed shapes + all typed trees of depth<=2 (23k) at base width 8 (quick: a seed-chosen 1/12 of the "
         "depth-2 trees; thorough: all, rule-directed shapes also at widths 4/16/32). Counterexamples are replayed on "
         "unpatched miasm with an independent evaluator before being reported.",
    note="Trusted: z3, vf/refsem.py, vf/symx.py; stubs listed in evidence; set iteration order may differ from production. "
         "Two unsound condition-code rewrites are recorded in known_findings.json (C01-KF1, C01-KF2).",
    technique="symbolic execution of the real Python simplifier (proxy ints) + z3 equivalence query per path",
    design_ref="DESIGN.md §3 C01")
CLAIMED['C02'] = dict(
    level='other',
    text="Same templates/paths as C01; the real simplifier is run twice on each symbolic path and z3 proves the second "
         "result structurally identical to the first for all constant values; >3000 rule applications on a path = "
         "non-termination. Symbolic counterexamples that do not reproduce concretely are INCONCLUSIVE (ordering).",
    note="Trusted: z3, vf/symx.py; value-independent constant hash may change set/dict iteration order w.r.t. production.",
    technique="symbolic execution of the real Python simplifier twice per path + z3 structural-equality query",
    design_ref="DESIGN.md §3 C02")

CLAIMED['C26'] = dict(
    level='other',
    text="Bounded symbolic verification of miasm.core.interval: every interval bound is a solver variable (paths = order "
         "types of the bounds), a symbolic member x ties union/intersection/difference/construction to set semantics; "
         "canonical form, length, hull, ==, inclusion are proved per path. Up to 2 (quick) / 3 (thorough) intervals per operand.",
    note="Trusted: z3, vf/symx.py. No stubs (interval.py runs unmodified on proxy ints).",
    technique="symbolic execution of the real Python (proxy ints, symbolic interval bounds) + z3 per-path queries",
    design_ref="DESIGN.md §3 C26")
CLAIMED['C05'] = dict(
    level='translation_validation',
    text="For ~1300 (quick) / ~4000 (thorough) expression shapes over symbolic operands, the z3 term produced by the real "
         "TranslatorZ3 is proved equal to the reference term for all identifier values and all memory-array contents, both "
         "byte orders; models are replayed by evaluating the translated term and comparing with miasm's own evaluation.",
    note="Trusted: z3, vf/refsem.py. Bounds: widths listed in evidence, sdiv/smod <= 8/16 bits, literal constants from a fixed set.",
    technique="translation validation: SMT equivalence query translator(e) == refsem(e) per shape",
    design_ref="DESIGN.md §3 C05", engine='refsem')
CLAIMED['C06'] = dict(
    level='translation_validation',
    text="Same as C05 for TranslatorSMT2: the emitted SMT-LIB2 text (with the translator's own declarations) is parsed back by "
         "z3 and proved equal to the reference term for all values; unparsable text or an exception is a violation.",
    note="Trusted: z3 (parser and solver), vf/refsem.py. Widths 1..64 from the listed set.",
    technique="translation validation: parse emitted SMT-LIB2, SMT equivalence query against refsem per shape",
    design_ref="DESIGN.md §3 C06", engine='refsem')

CLAIMED['C07'] = dict(
    level='translation_validation',
    text="The Python source emitted by the real TranslatorPython is executed symbolically (identifiers = proxy ints, memory = "
         "uninterpreted read) and z3 proves its value equal to the reference bit-vector value and inside [0, 2^size) for all "
         "operand values, per shape and path; exceptions escaping the emitted code are violations. The construction-source "
         "(TranslatorMiasm) round trip has no arithmetic and is run concretely as an auxiliary check on the same shapes.",
    note="Trusted: z3, vf/refsem.py, vf/symx.py. Shift counts above 600 are outside the engine cap (inconclusive).",
    technique="symbolic execution of the emitted Python program (proxy ints) + z3 equivalence with refsem per path",
    design_ref="DESIGN.md §3 C07")

NOT_APPLICABLE = {
    'C08': 'every observation point (hash() into the global intern table, repr formatting, pyparsing regexes, pickle) is a C boundary that forces concretisation; nothing symbolic survives to be decided and what remains is example testing. Interning is moreover the one mechanism the symx engine replaces by its specification (DESIGN.md section 5)',
    'C14': 'inputs flow through ~12k lines of table-driven per-architecture code (dict/bintree lookups keyed by instruction bits, per-field object graphs, pyparsing for text): a symbolic byte or token concretises at the first lookup, so a solver-based check degenerates into opcode enumeration/fuzzing (2^16..2^32 encodings per form), a different technique; the property is structural with no arithmetic relation for a solver to decide (DESIGN.md section 5)',
    'C15': 'inputs flow through ~12k lines of table-driven per-architecture code (dict/bintree lookups keyed by instruction bits, per-field object graphs, pyparsing for text): a symbolic byte or token concretises at the first lookup, so a solver-based check degenerates into opcode enumeration/fuzzing (2^16..2^32 encodings per form), a different technique; the property is structural with no arithmetic relation for a solver to decide (DESIGN.md section 5)',
    'C16': 'inputs flow through ~12k lines of table-driven per-architecture code (dict/bintree lookups keyed by instruction bits, per-field object graphs, pyparsing for text): a symbolic byte or token concretises at the first lookup, so a solver-based check degenerates into opcode enumeration/fuzzing (2^16..2^32 encodings per form), a different technique; the property is structural with no arithmetic relation for a solver to decide (DESIGN.md section 5)',
    'C31': 'inputs flow through ~12k lines of table-driven per-architecture code (dict/bintree lookups keyed by instruction bits, per-field object graphs, pyparsing for text): a symbolic byte or token concretises at the first lookup, so a solver-based check degenerates into opcode enumeration/fuzzing (2^16..2^32 encodings per form), a different technique; the property is structural with no arithmetic relation for a solver to decide (DESIGN.md section 5)',
    'C32': 'inputs flow through ~12k lines of table-driven per-architecture code (dict/bintree lookups keyed by instruction bits, per-field object graphs, pyparsing for text): a symbolic byte or token concretises at the first lookup, so a solver-based check degenerates into opcode enumeration/fuzzing (2^16..2^32 encodings per form), a different technique; the property is structural with no arithmetic relation for a solver to decide (DESIGN.md section 5)',
    'C17': 'needs an independent disassembler, the host CPU or a reference emulator as oracle: differential testing against an artefact with no formal model (none installed besides objdump); not decidable by a solver (DESIGN.md section 5)',
    'C18': 'needs an independent disassembler, the host CPU or a reference emulator as oracle: differential testing against an artefact with no formal model (none installed besides objdump); not decidable by a solver (DESIGN.md section 5)',
    'C19': 'needs an independent disassembler, the host CPU or a reference emulator as oracle: differential testing against an artefact with no formal model (none installed besides objdump); not decidable by a solver (DESIGN.md section 5)',
    'C20': 'whole-program emulation through CPython extension modules (JitCore_*.so, VmMngr.so), C code generated and compiled by gcc at run time, and llvmlite (absent): behind FFI, no symbolic engine available here reaches it (no CBMC/KLEE/ESBMC/angr). The expression-evaluation core it relies on is covered by C03 (DESIGN.md section 5)',
    'C21': 'whole-program emulation through CPython extension modules (JitCore_*.so, VmMngr.so), C code generated and compiled by gcc at run time, and llvmlite (absent): behind FFI, no symbolic engine available here reaches it (no CBMC/KLEE/ESBMC/angr). The expression-evaluation core it relies on is covered by C03 (DESIGN.md section 5)',
    'C22': 'whole-program emulation through CPython extension modules (JitCore_*.so, VmMngr.so), C code generated and compiled by gcc at run time, and llvmlite (absent): behind FFI, no symbolic engine available here reaches it (no CBMC/KLEE/ESBMC/angr). The expression-evaluation core it relies on is covered by C03 (DESIGN.md section 5)',
    'C23': 'whole-program emulation through CPython extension modules (JitCore_*.so, VmMngr.so), C code generated and compiled by gcc at run time, and llvmlite (absent): behind FFI, no symbolic engine available here reaches it (no CBMC/KLEE/ESBMC/angr). The expression-evaluation core it relies on is covered by C03 (DESIGN.md section 5)',
    'C49': 'whole-program emulation through CPython extension modules (JitCore_*.so, VmMngr.so), C code generated and compiled by gcc at run time, and llvmlite (absent): behind FFI, no symbolic engine available here reaches it (no CBMC/KLEE/ESBMC/angr). The expression-evaluation core it relies on is covered by C03 (DESIGN.md section 5)',
    'C34': 'every get/set of the typed views goes through struct.pack/unpack and VmMngr (C extension): layouts are concrete per type definition and values concretise at the C boundary; nothing symbolic is left to decide (DESIGN.md section 5)',
    'C35': 'the oracle is the platform ABI as implemented by GCC: compiler-differential testing, not a solver question; the layout code itself takes concrete type descriptions only (DESIGN.md section 5)',
    'C41': "dynamic symbolic execution needs the jitter (FFI) running whole programs next to miasm's own solver use; the symbolic engine it builds on is covered by C12/C13 and the z3 translation by C05 (DESIGN.md section 5)",
    'C42': 'struct-based (de)serialisation of whole files over Python bytes: every field concretises at struct.pack/unpack; the only solver-friendly clause (RVA/offset arithmetic inside a section) is too small a part of the property to claim it (DESIGN.md section 5)',
    'C43': 'struct-based (de)serialisation of whole ELF files over Python bytes: every field concretises at struct.pack/unpack; nothing symbolic survives (DESIGN.md section 5)',
    'C44': 'loading goes through struct parsing and the VmMngr C extension on files produced by a toolchain; inputs concretise immediately and the memory manager is behind FFI (DESIGN.md section 5)',
}

NOT_BUILT = "not built yet in this session (planned, see DESIGN.md §3); not claimed"

CLAIMED['C09'] = dict(
    level='other',
    text="For ~900 shapes with up to 6 nested conditionals (in operands, slices, compose parts, memory pointers, conditions "
         "and branches) the real possible_values() output is checked by validity queries over all valuations: the "
         "disjunction of the alternatives' constraint sets is valid, and each alternative's constraints imply value == "
         "original (refsem).",
    note="Trusted: z3, vf/refsem.py. 8-bit values; conditions of 1 and 8 bits; shapes from a fixed grammar.",
    technique="SMT validity queries over the output of the real possible_values per shape",
    design_ref="DESIGN.md §3 C09", engine='refsem')

CLAIMED['C10'] = dict(
    level='other',
    text="(a) every ModularIntervals operation runs with symbolic interval bounds/modulus at set sizes 3..4 (quick) / 3..5 "
         "(thorough); with symbolic members x in A, y in B z3 proves (x op y mod 2^n) in result per path. (b) expr_range runs on "
         "typed depth<=2 templates (base width 4) with symbolic constants; z3 proves refsem(e) in expr_range(e) for all "
         "constants, identifiers and memory bytes.",
    note="Trusted: z3, vf/refsem.py, vf/symx.py; interval bounds concretise inside range() (exhaustive enumeration). Sizes "
         "above 5 bits are outside the claim (bit loops fork per bit).",
    technique="symbolic execution of the real Python (symbolic interval bounds / constants) + z3 membership query per path",
    design_ref="DESIGN.md §3 C10")

CLAIMED['C25'] = dict(
    level='other',
    text="bin_stream_str getbytes/getbits/get_uN and the atomic-mode cache run on a buffer whose every byte is a solver "
         "variable, with symbolic start/length/base address covering before/inside/after the buffer; per path z3 proves "
         "result == extract(buffer) (MSB-first bits, both byte orders), IOError exactly outside, cached == uncached also "
         "across atomic sections with a changed source. Buffers of 0..3 (quick) / 0..9 (thorough) bytes.",
    note="Trusted: z3, vf/symx.py; stubs: SymBytes buffer, ord and upck* pass-throughs (struct is C). File/ELF/PE/VM streams "
         "are outside the claim.",
    technique="symbolic execution of the real Python (symbolic buffer bytes and offsets) + z3 per-path queries",
    design_ref="DESIGN.md §3 C25")

CLAIMED['C13'] = dict(
    level='other',
    text="The real symbolic-engine memory (MemArray/MemSparse/SymbolMngr, get_state/set_state, deletion) is driven by ~4600 "
         "(quick) / ~60000 (thorough) enumerated histories of writes (5 value kinds incl. self/other memory and slices of wider "
         "loads), deletions and export/import, sizes 1..8 bytes, offsets around 0x10 and around the 2^32 wrap, integer and two "
         "symbolic bases; written values and original memory are solver variables and every probed read is proved equal to "
         "the little-endian byte-store model.",
    note="Trusted: z3, vf/refsem.py. Offsets are enumerated (dictionary keys in the implementation); non-aliasing of different "
         "symbolic bases is assumed as the engine documents.",
    technique="SMT equivalence of the real engine's read results against a byte-store model over enumerated histories",
    design_ref="DESIGN.md §3 C13", engine='refsem')

CLAIMED['C12'] = dict(
    level='other',
    text="The real SymbolicExecutionEngine runs on ~700 (quick) / ~12000 (thorough) generated IR blocks (parallel assignments, "
         "swaps, loads/stores of 8/16/32 bits on two symbolic bases, integer addresses and register pointers, slices of loaded "
         "values, wrap-around offsets) and on IR lifted by the real lifters of 9 architectures (plus x86 multi-instruction "
         "sequences); z3 proves, for all initial registers and memory under the non-aliasing hypotheses, that every register, "
         "the memory at a symbolic probe address and the destination equal direct parallel execution of the same IR.",
    note="Trusted: z3, vf/refsem.py, vf/irsym.py (direct executor). Programs are enumerated/generated (seeded), initial states "
         "are solver variables.",
    technique="SMT equivalence between the real engine's final symbolic state and a direct IR executor, per program",
    design_ref="DESIGN.md §3 C12", engine='irsym+refsem')

CLAIMED['C47'] = dict(
    level='other',
    text="The real Windows/Linux helper stubs run on a mock jitter with symbolic 32-bit arguments and symbolic memory bytes: "
         "RtlLargeIntegerAdd/Subtract/ShiftRight and the two 64-bit multiplies are proved equal to 64-bit modular arithmetic for "
         "all arguments; RtlCompareMemory, memcmp, memcpy, RtlMoveMemory, memset, strlen, lstrlenA/lstrcpyA/lstrcatA/lstrcmpA/"
         "lstrcpyn and the linux_stdlib counterparts are proved against C semantics for all byte contents with lengths 0..3 "
         "(quick) / 0..4 (thorough).",
    note="Trusted: z3, vf/symx.py, vf/mockjit.py (mock jitter/VM), vf/symbytes.py (cp1252 codec model). Two codec-related "
         "defects are recorded in known_findings.json (C47-KF1, C47-KF2). RtlComputeCrc32 (zlib) is outside.",
    technique="symbolic execution of the real Python stubs on a mock jitter (symbolic args and bytes) + z3 per-path queries",
    design_ref="DESIGN.md §3 C47")
CLAIMED['C48'] = dict(
    level='other',
    text="heap.alloc, HeapAlloc, VirtualAlloc (with enumerated hint kinds), mmap (hinted, fixed), brk and a mixed scenario run "
         "on a mock VM with symbolic request sizes (0..2^24); after every request z3 proves the returned region fully mapped "
         "(symbolic probe address), disjoint from and at a different address than every other live allocation.",
    note="Trusted: z3, vf/symx.py, vf/mockjit.py whose overlap rule copies vm_mngr.c is_mpn_in_tab (the C manager itself is "
         "not claimed). Histories of 3 (quick) / 4 (thorough) requests.",
    technique="symbolic execution of the real Python allocators on a mock VM (symbolic sizes) + z3 per-path queries",
    design_ref="DESIGN.md §3 C48")

CLAIMED['C46'] = dict(
    level='other',
    text="CrossHair (symbolic execution of the real Python over z3's string theory) checks PEP316 contracts: for every guest "
         "path of up to 4 (quick) / 6 (thorough) characters over {/ \\ . a b}, unix_to_sbpath, windows_to_sbpath and "
         "FileSystem.resolve_path under 5 symbolic-link layouts (follow and no-follow) return a path lexically inside the base "
         "directory and, when following, not itself a link. 'Confirmed over all paths' is required; anything else is inconclusive.",
    note="Trusted: crosshair-tool 0.0.110, z3, the containment oracle and link-table stubs in vf/ch/c46_harness.py. Real on-disk "
         "symlinks, races and passthrough entries are outside the claim.",
    technique="CrossHair symbolic execution (z3 strings) of the real path-resolution code against PEP316 contracts",
    design_ref="DESIGN.md §3 C46", engine='crosshair')

CLAIMED['C33'] = dict(
    level='other',
    text="Bounded exhaustive exploration of StrPatchwork histories driven by the symx engine: the operation code, index, and "
         "payload of each of K=2 (quick) / 3 (thorough) steps are solver variables that concretise exhaustively (array('B') is C), "
         "and after every history every index, every slice and a set of searches are compared with a bytearray-with-padding model.",
    note="Trusted: vf/symx.py, z3 (drives the enumeration only: no symbolic arithmetic survives the C array boundary -- this is "
         "bounded exhaustive exploration, labelled as such).",
    technique="solver-driven exhaustive enumeration of bounded operation histories of the real class against a model",
    design_ref="DESIGN.md §3 C33")
CLAIMED['C45'] = dict(
    level='other',
    text="(a) every history of 3 (quick) / 4 (thorough) libimp registrations over 7 library-name variants x 6 functions/ordinals "
         "is explored (solver-driven enumeration) and compared with a model after each step: stable bases, stable and pairwise "
         "distinct stubs, stubs map back. (b) inductive allocator step: from the state reached after k imports of one library "
         "(k symbolic, 0..300/600) one more import must not land in another library's window.",
    note="Trusted: vf/symx.py, z3. Names are dictionary keys, hence concretised; the 255-imports-per-library limit is recorded as "
         "known finding C45-KF1.",
    technique="solver-driven exhaustive enumeration of bounded histories + inductive step with a symbolic import count",
    design_ref="DESIGN.md §3 C45")

CLAIMED['C29'] = dict(
    level='other',
    text="Inductive one-step refinement check of BoundedDict: from an arbitrary state within the representation invariant (any "
         "held subset of a 4/5-key pool, every use counter a symbolic integer) one operation (insert/update/lookup/delete/"
         "membership/destruction, any key) runs on the real class; z3 proves per path (ordering of the counters) that values, "
         "counters, size equal the model's post-state, evictions happen only for a new key at the limit and keep the most "
         "used keys, and the callback fires exactly for dropped keys. Bounded histories from the empty dictionary confirm "
         "that reachable states satisfy the assumed invariant.",
    note="Trusted: z3, vf/symx.py. max_size 2..4 (quick) / 2..5 (thorough); max_size < 3 with default min_size is outside.",
    technique="symbolic execution of one operation from an arbitrary valid state (symbolic use counters) + z3 per-path queries",
    design_ref="DESIGN.md §3 C29")

CLAIMED['C28'] = dict(
    level='other',
    text="Every history of 3 (quick) / 4 (thorough) LocationDB API calls (11 operations incl. strict/non-strict creation, "
         "forced offsets, removals, get_or_create, merge; 2 names, offsets {0, 0x10}, up to 3 locations) is explored by "
         "solver-driven enumeration and compared after each call with a relational model: same observable state, "
         "consistency_check() passes, rejected calls change nothing, creation returns the right location, merge imports every "
         "association.",
    note="Trusted: vf/symx.py, z3 (enumeration only: names/offsets are dictionary keys). Conflicting merges are outside.",
    technique="solver-driven exhaustive enumeration of bounded API histories of the real class against a model",
    design_ref="DESIGN.md §3 C28")

CLAIMED['C11'] = dict(
    level='other',
    text="The real match_expr runs on ~8000 (quick) / ~100000 (thorough) (expression, pattern) pairs from one typed grammar "
         "(depth<=2, base width 8): all constants on both sides are independent solver variables, jokers replace 1-2 sub-terms "
         "(also the same joker twice, also expressions mentioning the joker's own identifier), plus near-miss patterns (slice "
         "bounds, arity, sizes, swapped arguments). For every path returning bindings z3 proves pattern[bindings] == expression "
         "structurally (canonised) and semantically (refsem) for all constants/valuations.",
    note="Trusted: z3, vf/refsem.py, vf/symx.py; stubs of the expression layer as in C01.",
    technique="symbolic execution of the real Python (symbolic constants) + z3 structural and semantic equality per path",
    design_ref="DESIGN.md §3 C11")

_IRTV = dict(level='translation_validation', engine='irsym+refsem')
CLAIMED['C36'] = dict(_IRTV,
    text="IRCFGSimplifierCommon and IRCFGSimplifierSSA are run on 70 (quick) / 840 (thorough) generated IR functions over 14 CFG "
         "skeletons (diamonds, nested/irreducible/self loops, swap and lost-copy loops, pointer walks, store/reload, merged pointer "
         "and save/restore patterns) and 12 functions assembled from x86_32 text; for every bounded path of the original z3 proves, "
         "for all initial registers and memory under non-aliasing hypotheses, same exit, same final memory, no invented write "
         "and same EAX/ESP (read through all_ssa_vars) in the simplified graph; models are replayed with an independent "
         "concrete IR interpreter.",
    note="Trusted: z3, vf/refsem.py, vf/irsym.py, vf/irprog.py. Programs are a fixed enumeration; paths bounded (40 blocks, 8 "
         "visits). Two miscompilations on irreducible loops are recorded as known findings (C36-KF1/2).",
    technique="translation validation: bounded symbolic execution of original and simplified IR + z3 equivalence per path",
    design_ref="DESIGN.md §3 C36")
CLAIMED['C37'] = dict(_IRTV,
    text="SSADiGraph.transform + UnSSADiGraph on the same program set: structural SSA validity (single definition, definitions "
         "dominate uses, phi arguments defined on the predecessor path) is checked on the SSA graph, and the out-of-SSA graph is "
         "proved to have the same exit, final memory and EAX/ESP as the original for all initial states on every bounded path "
         "(every program also dumps its registers to memory).",
    note="Trusted: as C36. Out-of-SSA of non-conventional SSA (after expression propagation) is exercised by C36's SSA pipeline.",
    technique="translation validation: bounded symbolic execution of original and out-of-SSA IR + z3 equivalence per path",
    design_ref="DESIGN.md §3 C37")
CLAIMED['C40'] = dict(_IRTV,
    text="propagate_cst_expr on the same program set: from the state where every register equals its _init value the rewritten "
         "graph is proved to compute the same 8 general registers, final memory, exit and no invented write as the original, "
         "for all initial values and memory on every bounded path.",
    note="Trusted: as C36. One miscompilation (memory-load expression propagated past a store) is recorded as C40-KF1.",
    technique="translation validation: bounded symbolic execution of original and rewritten IR + z3 equivalence per path",
    design_ref="DESIGN.md §3 C40")

CLAIMED['C39'] = dict(
    level='other', engine='irsym+refsem',
    text="On 48 (quick) / 360 (thorough) loop-free generated IR graphs (diamonds, nested diamonds, parallel swaps/rotations, "
         "store/reload, save/restore) every solution of DependencyGraph.get for 3 target sets is checked: z3 proves, for all "
         "initial states under non-aliasing hypotheses, that DependencyResult.emul() (sliced assignments) equals direct execution "
         "of the full blocks along the solution history, and in implicit mode that the recorded solver constraints are "
         "equivalent to the path condition of that history.",
    note="Trusted: z3, vf/refsem.py, vf/irsym.py. Loop-free programs only; exact-match memory tracking limitation recorded as C39-KF1.",
    technique="SMT equivalence between the real slice emulation and a direct IR executor per dependency solution",
    design_ref="DESIGN.md §3 C39")

CLAIMED['C27'] = dict(
    level='other', engine='symx (solver-driven enumeration)',
    text="Bounded exhaustive exploration, driven by the solver: the adjacency bits of every graph with up to 4 nodes (66066 graphs; "
         "thorough: plus 5x131072 5-node graphs) are solver booleans, "
         "the real DiGraph dominators, post-dominators, immediate (post)dominators, dominator tree, dominance frontier, back "
         "edges, natural loops, SCC, WCC, reachability, traversals, has_loop, find_path/find_path_from_src run for every head and "
         "leaf and are compared with definition-level oracles.",
    note="Enumeration, not symbolic reasoning: nodes are hashed by the implementation. Trusted: the 100-line oracle in vf/props/c27.py.",
    technique="bounded exhaustive exploration of adjacency matrices enumerated by the SMT solver (no symbolic arithmetic survives hashing)",
    design_ref="DESIGN.md §3 C27")

CLAIMED['C30'] = dict(
    level='other', engine='symx (solver-driven enumeration)',
    text="Bounded exhaustive exploration, driven by the solver: from 48 initial AsmCFGs built through the API (3 blocks, 8 constraint "
         "sets incl. self-loops, duplicate constraints and a never-present destination) every sequence of 2 (quick) / 3 (thorough) "
         "operations among add_block, del_block, add_edge, del_edge, rewrite-bto+rebuild_edges, merge, rebuild_edges, copy is "
         "executed on the real AsmCFG; after every operation edges(), edges2constraint, pendings and successor/predecessor lists "
         "are compared with the invariant recomputed from the blocks' bto sets.",
    note="Enumeration, not symbolic reasoning: loc keys are hashed by the implementation. Edges added by hand to block-less nodes and "
         "conflicting-kind duplicates are outside the claim.",
    technique="bounded exhaustive exploration of operation histories enumerated by the SMT solver, invariant checked after each step",
    design_ref="DESIGN.md §3 C30")

CLAIMED['C38'] = dict(
    level='other', engine='symx (solver-driven enumeration)',
    text="Bounded exhaustive exploration, driven by the solver: for each of the 133 control-flow shapes of 3 blocks (thorough: plus 300 "
         "4-block shapes) the statements of every block are solver variables over a 6-entry statement table (definitions, uses, "
         "parallel swap, branch condition); the real ReachingDefinitions, DiGraphDefUse, DiGraphLiveness, DiGraphLivenessIRA (and DiGraphLivenessSSA on "
         "the SSA form) run on each IRCFG and are compared, at every program point, with path-search oracles on the point graph.",
    note="Enumeration, not symbolic reasoning: variables are hashed by the implementation. Register variables only; "
         "graphs with block-less destinations are outside the claim.",
    technique="bounded exhaustive exploration of small IR graphs enumerated by the SMT solver against path-search oracles",
    design_ref="DESIGN.md §3 C38")

CLAIMED['C04'] = dict(
    level='translation_validation', engine='llsym+refsem',
    text="The C text of the real TranslatorC for ~1100 (quick) / ~3000 (thorough) expression shapes is wrapped as codegen.py does, "
         "compiled by clang-14 to LLVM IR together with the current op_semantics.c/.h and bn.c, and executed symbolically by vf/llsym.py "
         "(path forking, LLVM poison semantics, runtime functions interpreted from their own IR); z3 proves for all operand values "
         "with non-zero divisors: no undefined behaviour, no exit(), no write to stdout, result == reference value. Violations "
         "are replayed natively under UBSan.",
    note="Native widths and the big-number path (bn.c, widths 80/128; thorough 72..256); wide products and divisions end "
         "inconclusive (data-dependent loops). Trusted: z3, clang-14 (stands for the C compiler), vf/llsym.py, vf/refsem.py.",
    technique="symbolic execution of the compiler's LLVM IR for the generated C + runtime, SMT equivalence with refsem per path",
    design_ref="DESIGN.md §1.4, §3 C04")

CLAIMED['C24'] = dict(
    level='other', engine='llsym (heap model)',
    text="Bounded model checking of the current vm_mngr.c through its LLVM IR (clang-14, interpreted by vf/llsym.py with a heap and "
         "pointer cells): 2 pages (thorough: up to 3) of 0-4 bytes at symbolic 64-bit addresses with symbolic permissions and "
         "contents, an optional symbolic breakpoint, then 1-3 operations with symbolic addresses and values (typed reads/writes of "
         "8-64 bits, host reads/writes, is_mapped, check_memory_breakpoint, reset_memory_access) in both byte orders; on every "
         "path z3 proves the observations equal to an SMT byte map with permissions (overlap refusal, fault iff a touched byte is "
         "unmapped/forbidden and then memory unchanged, reads = last written bytes, breakpoint iff overlap, recorded ranges = "
         "bytes accessed). Violations are replayed natively (ASan+UBSan build of the same source).",
    note="Outside: vm_mngr_py.c glue, remove_memory_page, code-block bookkeeping, allocation failure, ranges wrapping 2^64. "
         "Trusted: z3, clang-14, vf/llsym.py.",
    technique="bounded model checking: symbolic execution of the C source's LLVM IR with symbolic addresses/values, SMT oracle per path",
    design_ref="DESIGN.md §9.5")
