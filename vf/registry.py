"""Registry of claimed checks and not-applicable properties; bin/mkmanifest renders MANIFEST.json."""

CLAIMED = {
    # id: dict(level, text, note, technique, design_ref)
    'C03': dict(
        level='other',
        text="Bounded symbolic verification: the real constant-folding code (expr_simp, modint) runs on "
             "symbolic operands via proxy ints; per path z3 proves result == two's-complement reference for "
             "every operand value at each listed width. Holds within the listed widths only.",
        note="Trusted: z3, vf/refsem.py (naive reference semantics), vf/symx.py proxy engine; harness-side "
             "stubs listed in evidence (int pass-through, hash-consing replaced by structural equality).",
        technique="symbolic execution of the real Python (proxy ints) + z3 validity queries per path",
        design_ref="DESIGN.md §3 C03"),
}

NOT_APPLICABLE = {
}

NOT_BUILT = "not built yet in this session (planned, see DESIGN.md §3); not claimed"
