"""Expression templates for C01/C02 (and reused by C10/C11): every ExprInt is a hole that the harness
fills with a symbolic constant ranging over its full width.

A template is (name, builder) ; builder(V) -> Expr where V hands out identifiers and constant holes.
S1: rule-directed shapes written from the documented pattern of each simp_* rule.
S2: every typed tree of depth <= 2 over the operator alphabet at base width n (generic generator).
"""
from miasm.expression.expression import ExprId, ExprInt, ExprOp, ExprSlice, ExprCompose, ExprCond, ExprMem


class V(object):
    """Template variables at base width n: a,b,d (n bits) A,B (2n) f,g (1 bit) p (pointer, 2n);
    k(i, size): i-th constant hole."""

    def __init__(self, n, const_factory):
        self.n = n
        self.N = 2 * n
        self.a = ExprId('a', n)
        self.b = ExprId('b', n)
        self.d = ExprId('d', n)
        self.A = ExprId('A', 2 * n)
        self.B = ExprId('B', 2 * n)
        self.f = ExprId('f', 1)
        self.g = ExprId('g', 1)
        self.h = ExprId('h', 1)
        self.p = ExprId('p', 2 * n)
        self._cf = const_factory
        self._consts = {}

    def k(self, i, size=None):
        size = self.n if size is None else size
        key = (i, size)
        if key not in self._consts:
            self._consts[key] = self._cf(i, size)
        return ExprInt(self._consts[key], size)

    def K(self, i):
        return self.k(i, self.N)

    def k1(self, i):
        return self.k(i, 1)

    def zx(self, x, size=None):
        return x.zeroExtend(self.N if size is None else size)

    def sx(self, x, size=None):
        return x.signExtend(self.N if size is None else size)


def op(o, *a):
    return ExprOp(o, *a)


def S1():
    """Rule-directed templates: list of (name, builder)."""
    T = []

    def t(name, fn):
        T.append((name, fn))

    # ---- simp_cst_propagation
    for o in ['+', '^', '&', '|', '*']:
        t('cst/%s/a_c_c' % o, lambda v, o=o: op(o, v.a, v.k(0), v.k(1)))
        t('cst/%s/a_b_c' % o, lambda v, o=o: op(o, v.a, v.b, v.k(0)))
        t('cst/%s/a_c' % o, lambda v, o=o: op(o, v.a, v.k(0)))
    for o in ['>>', '<<', 'a>>', '<<<', '>>>']:
        t('cst/%s/a_c' % o, lambda v, o=o: op(o, v.a, v.k(0)))
        t('cst/%s/c_a' % o, lambda v, o=o: op(o, v.k(0), v.a))
    for o in ['/', '%', 'udiv', 'umod', 'sdiv', 'smod']:
        t('cst/%s/a_c' % o, lambda v, o=o: op(o, v.a, v.k(0)))
        t('cst/%s/c_a' % o, lambda v, o=o: op(o, v.k(0), v.a))
    t('cst/negneg', lambda v: -(-v.a))
    t('cst/neg_add', lambda v: -(v.a + v.b + v.k(0)))
    t('cst/sub2', lambda v: op('-', v.a, v.k(0)))
    t('cst/sub2b', lambda v: op('-', v.k(0), v.a))
    t('cst/neg_cond_int', lambda v: -ExprCond(v.f, v.k(0), v.k(1)))
    t('cst/xor_self', lambda v: op('^', v.a, v.a, v.k(0)))
    t('cst/add_negself', lambda v: op('+', v.a, -v.a, v.k(0)))
    t('cst/negself_add', lambda v: op('+', -v.a, v.b, v.a))
    t('cst/or_self', lambda v: op('|', v.a, v.a, v.k(0)))
    t('cst/and_self', lambda v: op('&', v.a, v.b, v.a, v.k(0)))
    for o1 in ['<<<', '>>>']:
        for o2 in ['<<<', '>>>']:
            t('cst/rot/%s_%s' % (o1, o2), lambda v, o1=o1, o2=o2: op(o2, op(o1, v.a, v.k(0)), v.k(1)))
            t('cst/rotv/%s_%s' % (o1, o2), lambda v, o1=o1, o2=o2: op(o2, op(o1, v.a, v.b), v.b))
    for o1 in ['<<', '>>']:
        for o2 in ['<<', '>>']:
            t('cst/sh/%s_%s' % (o1, o2), lambda v, o1=o1, o2=o2: op(o2, op(o1, v.a, v.k(0)), v.k(1)))
            t('cst/sh_same/%s_%s' % (o1, o2), lambda v, o1=o1, o2=o2: op(o2, op(o1, v.a, v.k(0)), v.k(0)))
    t('cst/and_shr', lambda v: (v.a & v.k(0)) >> v.k(1))
    t('cst/mul_negs', lambda v: op('*', -v.a, v.b, -v.d))
    t('cst/mul_neg1', lambda v: op('*', -v.a, v.b))
    t('cst/neg_mul_int', lambda v: -(op('*', v.a, v.b, v.k(0))))
    t('cst/compose_shl', lambda v: ExprCompose(v.a, v.b) << v.K(0))
    t('cst/compose_shr', lambda v: ExprCompose(v.a, v.b) >> v.K(0))
    t('cst/compose3_shl', lambda v: ExprCompose(v.a[:v.n // 2], v.b, v.a[v.n // 2:]) << v.K(0))
    t('cst/compose3_shr', lambda v: ExprCompose(v.a[:v.n // 2], v.b, v.a[v.n // 2:]) >> v.K(0))
    t('cst/composec_shl', lambda v: ExprCompose(v.a, v.k(1)) << v.K(0))
    for o in ['&', '|', '^']:
        t('cst/compose_%s_compose' % o, lambda v, o=o: op(o, ExprCompose(v.a, v.b), ExprCompose(v.k(0), v.k(1))))
        t('cst/compose_%s_compose2' % o, lambda v, o=o: op(o, ExprCompose(v.a, v.b), ExprCompose(v.b, v.a)))
    t('cst/or_mask', lambda v: v.a | v.b | v.k(0))
    t('cst/and_mask', lambda v: v.a & v.b & v.k(0))

    # ---- simp_cond_op_int / simp_cond_factor
    for o in ['+', '|', '^', '&', '*', '<<', '>>', 'a>>']:
        t('condop/%s/cond_c' % o, lambda v, o=o: op(o, ExprCond(v.f, v.k(0), v.k(1)), v.k(2)))
        t('condop/%s/c_cond' % o, lambda v, o=o: op(o, v.k(2), ExprCond(v.f, v.k(0), v.k(1))))
        t('condop/%s/cond_b' % o, lambda v, o=o: op(o, ExprCond(v.a, v.a, v.k(0)), v.b))
        t('condfac/%s/2' % o, lambda v, o=o: op(o, ExprCond(v.f, v.k(0), v.k(1)), ExprCond(v.f, v.k(2), v.k(3))))
        t('condfac/%s/2v' % o, lambda v, o=o: op(o, ExprCond(v.f, v.a, v.b), ExprCond(v.f, v.b, v.k(0))))
    t('condfac/+/3', lambda v: op('+', ExprCond(v.f, v.a, v.k(0)), ExprCond(v.g, v.b, v.k(1)),
                                  ExprCond(v.f, v.k(2), v.b)))
    t('condfac/^/3b', lambda v: op('^', ExprCond(v.f, v.a, v.k(0)), v.b, ExprCond(v.f, v.k(2), v.b)))

    # ---- simp_add_multiple
    t('addmul/a_a', lambda v: v.a + v.a)
    t('addmul/a_a_a', lambda v: op('+', v.a, v.a, v.a))
    t('addmul/a_amulc', lambda v: v.a + v.a * v.k(0))
    t('addmul/amulc_nega', lambda v: v.a * v.k(0) + (-v.a))
    t('addmul/a_ashl', lambda v: v.a + (v.a << v.k(0)))
    t('addmul/a_negashl', lambda v: v.a + (-(v.a << v.k(0))))
    t('addmul/amulc_amulc', lambda v: v.a * v.k(0) + v.a * v.k(1))
    t('addmul/sum_factor', lambda v: op('+', (v.a + v.b) * v.k(0), v.a, v.b))
    t('addmul/sum_factor2', lambda v: op('+', (v.a + v.b) * v.k(0), v.a * v.k(1), v.b * v.k(1)))
    t('addmul/cancel', lambda v: op('+', v.a * v.k(0), v.b, -v.a, v.k(1)))

    # ---- simp_cc_conds
    cc1 = [('CC_U>=', ['FLAG_SUB_CF']), ('CC_U<', ['FLAG_SUB_CF']), ('CC_NEG', ['FLAG_SIGN_SUB']),
           ('CC_POS', ['FLAG_SIGN_SUB']), ('CC_EQ', ['FLAG_EQ_CMP']), ('CC_NE', ['FLAG_EQ_CMP']),
           ('CC_NE', ['FLAG_EQ_AND']), ('CC_EQ', ['FLAG_EQ_AND']),
           ('CC_S>', ['FLAG_SIGN_SUB', 'FLAG_SUB_OF', 'FLAG_EQ_CMP']),
           ('CC_S>=', ['FLAG_SIGN_SUB', 'FLAG_SUB_OF']), ('CC_S<', ['FLAG_SIGN_SUB', 'FLAG_SUB_OF']),
           ('CC_S<=', ['FLAG_SIGN_SUB', 'FLAG_SUB_OF', 'FLAG_EQ_CMP']),
           ('CC_U<=', ['FLAG_SUB_CF', 'FLAG_EQ_CMP']), ('CC_U>', ['FLAG_SUB_CF', 'FLAG_EQ_CMP']),
           ('CC_S<', ['FLAG_SIGN_ADD', 'FLAG_ADD_OF'])]
    for cc, fl in cc1:
        t('cc/%s/%s/ab' % (cc, '+'.join(fl)), lambda v, cc=cc, fl=fl: op(cc, *[op(x, v.a, v.b) for x in fl]))
        t('cc/%s/%s/ac' % (cc, '+'.join(fl)), lambda v, cc=cc, fl=fl: op(cc, *[op(x, v.a, v.k(0)) for x in fl]))
        t('cc/%s/%s/ca' % (cc, '+'.join(fl)), lambda v, cc=cc, fl=fl: op(cc, *[op(x, v.k(0), v.a) for x in fl]))
    t('cc/CC_EQ/FLAG_EQ', lambda v: op('CC_EQ', op('FLAG_EQ', v.a)))
    t('cc/CC_NE/FLAG_EQ', lambda v: op('CC_NE', op('FLAG_EQ', v.a)))
    t('cc/CC_EQ/FLAG_EQ/expr', lambda v: op('CC_EQ', op('FLAG_EQ', v.a & v.k(0))))
    t('cc/CC_S>/of_int', lambda v: op('CC_S>', op('FLAG_SIGN_SUB', v.a, v.b), v.k1(0), op('FLAG_EQ_CMP', v.a, v.b)))
    t('cc/CC_S<=/of_int', lambda v: op('CC_S<=', op('FLAG_SIGN_SUB', v.a, v.b), v.k1(0), op('FLAG_EQ_CMP', v.a, v.b)))
    t('cc/CC_S>=/of_int', lambda v: op('CC_S>=', op('FLAG_SIGN_SUB', v.a, v.k(0)), v.k1(1)))
    t('cc/mixed_args', lambda v: op('CC_S<', op('FLAG_SIGN_SUB', v.a, v.b), op('FLAG_SUB_OF', v.b, v.a)))
    t('cc/mixed_args2', lambda v: op('CC_U<=', op('FLAG_SUB_CF', v.a, v.k(0)), op('FLAG_EQ_CMP', v.a, v.k(1))))

    # ---- subwc
    for o, name in [('FLAG_SUBWC_CF', 'subwc_cf'), ('FLAG_SUBWC_OF', 'subwc_of'), ('FLAG_SIGN_SUBWC', 'sign_subwc')]:
        t('flag/%s' % name, lambda v, o=o: op(o, v.a, v.b, op('FLAG_SUB_CF', v.d, v.k(0))))
        t('flag/%s/c' % name, lambda v, o=o: op(o, v.a, v.k(0), op('FLAG_SUB_CF', v.k(1), v.b)))
    t('flag/sub_cf_zero', lambda v: op('FLAG_SUB_CF', v.k(0), v.a))
    t('flag/sub_cf_zero2', lambda v: op('FLAG_SUB_CF', v.a, v.k(0)))

    # ---- extensions
    t('ext/zz', lambda v: v.zx(v.a).zeroExtend(2 * v.N))
    t('ext/ss', lambda v: v.sx(v.a).signExtend(2 * v.N))
    t('ext/zs', lambda v: v.zx(v.a).signExtend(2 * v.N))
    t('ext/sz', lambda v: v.sx(v.a).zeroExtend(2 * v.N))
    t('ext/zext_eq_c', lambda v: op('==', v.zx(v.a), v.K(0)))
    t('ext/sext_eq_c', lambda v: op('==', v.sx(v.a), v.K(0)))
    t('ext/zext_eq_zext', lambda v: op('==', v.zx(v.a), v.zx(v.b)))
    t('ext/sext_eq_sext', lambda v: op('==', v.sx(v.a), v.sx(v.b)))
    t('ext/zext_eq_sext', lambda v: op('==', v.zx(v.a), v.sx(v.b)))
    t('ext/zext_eq_zext_sz', lambda v: op('==', v.zx(v.a, 2 * v.N), v.zx(v.A, 2 * v.N)))
    t('ext/sext_eq_sext_sz', lambda v: op('==', v.sx(v.a, 2 * v.N), v.sx(v.A, 2 * v.N)))
    t('ext/zext_cond_int', lambda v: v.zx(ExprCond(v.f, v.k(0), v.k(1))))
    t('ext/sext_cond_int', lambda v: v.sx(ExprCond(v.f, v.k(0), v.k(1))))
    for o in ['<s', '<=s', '<u', '<=u']:
        t('ext/zext%sc' % o, lambda v, o=o: op(o, v.zx(v.a), v.K(0)))
        t('ext/sext%sc' % o, lambda v, o=o: op(o, v.sx(v.a), v.K(0)))
        t('ext/c%szext' % o, lambda v, o=o: op(o, v.K(0), v.zx(v.a)))
        t('ext/c%ssext' % o, lambda v, o=o: op(o, v.K(0), v.sx(v.a)))
    t('ext/zext_and_c_eq_c', lambda v: op('==', v.zx(v.a) & v.K(0), v.K(1)))
    t('ext/zext_and_zext_c_eq_c', lambda v: op('==', op('&', v.zx(v.a), v.zx(v.b), v.K(0)), v.K(1)))
    t('ext/leu_c', lambda v: op('<=u', v.a, v.k(0)))
    t('ext/smod_sext_sext', lambda v: op('smod', v.sx(v.a), v.sx(v.b)))
    t('ext/smod_sext_c', lambda v: op('smod', v.sx(v.a), v.K(0)))
    t('ext/smod_c_sext', lambda v: op('smod', v.K(0), v.sx(v.b)))

    # ---- simp_cmp_int / bijective
    t('cmp/compose0_eq_c', lambda v: op('==', ExprCompose(v.a, v.k(0)), v.K(1)))
    t('cmp/add_c_eq_c', lambda v: op('==', v.a + v.k(0), v.k(1)))
    t('cmp/xor_c_eq_c', lambda v: op('==', v.a ^ v.k(0), v.k(1)))
    t('cmp/c_eq_add_c', lambda v: op('==', v.k(1), v.a + v.k(0)))
    t('cmp/add3_c_eq_c', lambda v: op('==', op('+', v.a, v.b, v.k(0)), v.k(1)))
    t('cmp/a_eq_a', lambda v: op('==', v.a + v.k(0), v.a + v.k(0)))
    t('cmp/ab_eq_a', lambda v: op('==', v.a + v.b, v.a))
    t('cmp/a_eq_axb', lambda v: op('==', v.a, v.a ^ v.b ^ v.k(0)))
    t('cmp/ab_eq_ac', lambda v: op('==', v.a + v.b, v.a + v.k(0)))
    t('cmp/abc_eq_ac', lambda v: op('==', op('^', v.a, v.b, v.k(0)), v.a ^ v.k(1)))
    t('cmp/ab_eq_ba', lambda v: op('==', v.a + v.b, v.b + v.a))
    t('cmp/abd_eq_ab', lambda v: op('==', op('+', v.a, v.b, v.d), v.b + v.a))
    t('cmp/aab_eq_a', lambda v: op('==', op('+', v.a, v.a, v.b), v.a))

    # ---- compose & mask
    t('cm/compose_and_c', lambda v: ExprCompose(v.a, v.b) & v.K(0))
    t('cm/compose3_and_c', lambda v: ExprCompose(v.a[:v.n // 2], v.b, v.a[v.n // 2:]) & v.K(0))
    t('cm/composec_and_c', lambda v: ExprCompose(v.a, v.k(1)) & v.K(0))
    t('cm/composec2_and_c', lambda v: ExprCompose(v.a[:v.n // 2], v.k(1), v.b[:v.n // 2]) & v.K(0))

    # ---- slices
    n_pos = lambda v: [(0, v.N), (0, v.n), (v.n, v.N), (v.n // 2, v.n + v.n // 2), (1, v.N - 1), (v.n - 1, v.n + 1),
                       (0, 1), (v.N - 1, v.N), (v.n // 2, v.n), (v.n, v.n + 1)]
    for i in range(10):
        t('slice/id/%d' % i, lambda v, i=i: ExprSlice(v.A, *n_pos(v)[i]))
        t('slice/compose/%d' % i, lambda v, i=i: ExprSlice(ExprCompose(v.a, v.b), *n_pos(v)[i]))
        t('slice/compose3/%d' % i, lambda v, i=i: ExprSlice(ExprCompose(v.a[:v.n // 2], v.b, v.k(0, v.n - v.n // 2)), *n_pos(v)[i]))
        t('slice/and_c/%d' % i, lambda v, i=i: ExprSlice(v.A & v.K(0), *n_pos(v)[i]))
        t('slice/cond_int/%d' % i, lambda v, i=i: ExprSlice(ExprCond(v.f, v.K(0), v.K(1)), *n_pos(v)[i]))
        t('slice/cond_compose/%d' % i, lambda v, i=i: ExprSlice(ExprCond(v.f, ExprCompose(v.a, v.b), ExprCompose(v.b, v.k(0))), *n_pos(v)[i]))
        t('slice/shr/%d' % i, lambda v, i=i: ExprSlice(v.A >> v.K(0), *n_pos(v)[i]))
        t('slice/shl/%d' % i, lambda v, i=i: ExprSlice(v.A << v.K(0), *n_pos(v)[i]))
        t('slice/zext/%d' % i, lambda v, i=i: ExprSlice(v.zx(v.a), *n_pos(v)[i]))
        t('slice/sext/%d' % i, lambda v, i=i: ExprSlice(v.sx(v.a), *n_pos(v)[i]))
        t('slice/mul_c/%d' % i, lambda v, i=i: ExprSlice(v.A * v.K(0), *n_pos(v)[i]))
        t('slice/mem/%d' % i, lambda v, i=i: ExprSlice(ExprMem(v.p, v.N), *n_pos(v)[i]))
    t('slice/slice', lambda v: ExprSlice(ExprSlice(v.A, 2, v.N - 2), 1, v.n))
    for o in ['+', '|', '^', '&']:
        t('slice/opext/%s' % o, lambda v, o=o: ExprSlice(op(o, v.zx(v.a), v.zx(v.b), v.K(0)), 0, v.n))
        t('slice/opext_compose/%s' % o, lambda v, o=o: ExprSlice(op(o, v.zx(v.a), ExprCompose(v.b, v.a), v.K(0)), 0, v.n))
        t('slice/opext_wrongsz/%s' % o, lambda v, o=o: ExprSlice(op(o, v.zx(v.a), v.K(0)), 0, v.n // 2))

    # ---- compose
    t('compose/merge_slices', lambda v: ExprCompose(v.A[:v.n], v.A[v.n:]))
    t('compose/merge_slices3', lambda v: ExprCompose(v.A[:v.n // 2], v.A[v.n // 2:v.n], v.b))
    t('compose/merge_ints', lambda v: ExprCompose(v.k(0), v.k(1)))
    t('compose/merge_ints_mid', lambda v: ExprCompose(v.a[:v.n // 2], v.k(0, v.n // 2), v.k(1), v.b[:v.n - v.n // 2 - v.n // 2] if False else v.b[:v.n // 2]) if v.n >= 4 else ExprCompose(v.k(0), v.k(1)))
    t('compose/nested', lambda v: ExprCompose(ExprCompose(v.a[:v.n // 2], v.b[v.n // 2:]), v.a) if v.n >= 2 else ExprCompose(v.a, v.b))
    t('compose/hi_slice_zero', lambda v: ExprCompose(v.A[v.n:], v.k(0)))
    t('compose/hi_slice_zero2', lambda v: ExprCompose(v.A[v.n // 2:], v.k(0, v.n // 2)) if v.n >= 2 else ExprCompose(v.A[v.n:], v.k(0)))
    t('compose/mem_adj', lambda v: ExprCompose(ExprMem(v.p, 8), ExprMem(v.p + v.K(0), 8)))
    t('compose/mem_adj16', lambda v: ExprCompose(ExprMem(v.p + v.K(1), 16), ExprMem(v.p + v.K(0), 16)))
    t('compose/mem_adj_rev', lambda v: ExprCompose(ExprMem(v.p + v.K(0), 8), ExprMem(v.p, 8)))
    t('compose/mem_adj3', lambda v: ExprCompose(ExprMem(v.p, 8), ExprMem(v.p + v.K(0), 8), ExprMem(v.p + v.K(1), 16)))
    t('compose/sext_hi', lambda v: ExprCompose(v.a, v.sx(v.a)[v.n:]))
    t('compose/sext_hi_wrong', lambda v: ExprCompose(v.a, v.sx(v.b)[v.n:]))
    t('compose/cond1', lambda v: ExprCompose(v.a, ExprCond(v.f, v.b, v.k(0))))
    t('compose/cond2', lambda v: ExprCompose(ExprCond(v.f, v.a, v.b), ExprCond(v.f, v.k(0), v.a)))
    t('compose/cond2diff', lambda v: ExprCompose(ExprCond(v.f, v.a, v.b), ExprCond(v.g, v.k(0), v.a)))

    # ---- cond
    t('cond/self_in_src', lambda v: ExprCond(v.f, v.zx(v.f, v.n) + v.k(0), v.zx(v.f, v.n) ^ v.k(1)))
    t('cond/neg', lambda v: ExprCond(-v.a, v.b, v.k(0)))
    t('cond/same', lambda v: ExprCond(v.a, v.b + v.k(0), v.b + v.k(1)))
    t('cond/int', lambda v: ExprCond(v.k(0), v.a, v.b))
    t('cond/nest1', lambda v: ExprCond(v.a, ExprCond(v.a, v.b, v.k(0)), v.k(1)))
    t('cond/nest2', lambda v: ExprCond(v.a, v.b, ExprCond(v.a, v.k(0), v.k(1))))
    t('cond/or_int', lambda v: ExprCond(v.a | v.k(0), v.b, v.k(1)))
    t('cond/or3_int', lambda v: ExprCond(op('|', v.a, v.b, v.k(0)), v.b, v.k(1)))
    t('cond/cond_ints', lambda v: ExprCond(ExprCond(v.a, v.k(0), v.k(1)), v.b, v.k(2)))
    t('cond/compose_zeros', lambda v: ExprCond(ExprCompose(v.k(0, v.n // 2), v.a, v.k(1, v.n - v.n // 2)), v.b, v.k(2)))
    t('cond/compose_zeros2', lambda v: ExprCond(ExprCompose(v.a, v.k(0), v.b), v.b, v.k(2)))
    t('cond/zext', lambda v: ExprCond(v.zx(v.a), v.A, v.K(0)))
    t('cond/sext', lambda v: ExprCond(v.sx(v.a), v.A, v.K(0)))
    t('cond/add', lambda v: ExprCond(v.a + v.b, v.b, v.k(0)))
    t('cond/add_c', lambda v: ExprCond(v.a + v.k(0), v.b, v.k(1)))
    t('cond/xor_c', lambda v: ExprCond(v.a ^ v.k(0), v.b, v.k(1)))
    t('cond/add3', lambda v: ExprCond(op('+', v.a, v.b, v.k(0)), v.b, v.k(1)))
    t('cond/flag_eq_cmp', lambda v: ExprCond(op('FLAG_EQ_CMP', v.a, v.k(0)), v.b, v.k(1)))
    for o in ['==', '<s', '<=s', '<u', '<=u']:
        t('cond/cmp_int_arg/%s' % o, lambda v, o=o: ExprCond(op(o, v.k(0), v.a), v.b, v.k(1)))
        t('cond/cmp_arg_int/%s' % o, lambda v, o=o: ExprCond(op(o, v.a, v.k(0)), v.b, v.k(1)))
        t('cond/eq_1_0/%s' % o, lambda v, o=o: ExprCond(op(o, v.a, v.b), v.k1(0), v.k1(1)))
    t('cond/and_c_eq_c', lambda v: ExprCond(op('==', v.a & v.k(0), v.k(1)), v.b, v.k(2)))
    t('cond/and_c_eq_samec', lambda v: ExprCond(op('==', v.a & v.k(0), v.k(0)), v.b, v.k(2)))
    t('cond/and3_c_eq_samec', lambda v: ExprCond(op('==', op('&', v.a, v.b, v.k(0)), v.k(0)), v.b, v.k(2)))
    for o in ['&', '^', '|']:
        t('cond/logic_ext/%s' % o, lambda v, o=o: ExprCond(op(o, v.zx(v.a), v.K(0)), v.b, v.k(1)))
        t('cond/logic_ext2/%s' % o, lambda v, o=o: ExprCond(op(o, v.zx(v.a), v.zx(v.b), v.K(0)), v.b, v.k(1)))
    t('cond/sign_bit', lambda v: ExprCond(v.a & v.k(0), v.b, v.k(1)))
    t('cond/sign_bit3', lambda v: ExprCond(op('&', v.a, v.b, v.k(0)), v.b, v.k(1)))
    t('cond/cc_ult', lambda v: ExprCond(op('CC_U<', v.f), v.a, v.k(0)))
    t('cond/cc_uge', lambda v: ExprCond(op('CC_U>=', v.f), v.a, v.k(0)))
    t('cond/sub_cf', lambda v: ExprCond(op('FLAG_SUB_CF', v.a, v.k(0)), v.b, v.k(1)))
    t('cond/eq_zero', lambda v: ExprCond(op('==', v.a + v.b, v.k(0)), v.b, v.k(1)))

    # ---- mem
    for sz in [8, 16, 32]:
        t('mem/cond/%d' % sz, lambda v, sz=sz: ExprMem(ExprCond(v.f, v.p, v.p + v.K(0)), sz))
        t('mem/add/%d' % sz, lambda v, sz=sz: ExprMem(v.p + v.K(0) + v.K(1), sz))

    # ---- explicit flags / cc on identifiers (high-to-explicit passes)
    for fl in ['FLAG_EQ_AND', 'FLAG_SIGN_SUB', 'FLAG_EQ_CMP', 'FLAG_ADD_CF', 'FLAG_SUB_CF', 'FLAG_ADD_OF', 'FLAG_SUB_OF']:
        t('hl/%s/ab' % fl, lambda v, fl=fl: op(fl, v.a, v.b))
        t('hl/%s/ac' % fl, lambda v, fl=fl: op(fl, v.a, v.k(0)))
    for fl in ['FLAG_EQ_ADDWC', 'FLAG_ADDWC_OF', 'FLAG_SUBWC_OF', 'FLAG_ADDWC_CF', 'FLAG_SUBWC_CF', 'FLAG_SIGN_ADDWC',
               'FLAG_SIGN_SUBWC', 'FLAG_EQ_SUBWC']:
        t('hl/%s/abf' % fl, lambda v, fl=fl: op(fl, v.a, v.b, v.f))
        t('hl/%s/acf' % fl, lambda v, fl=fl: op(fl, v.a, v.k(0), v.f))
        t('hl/%s/abc' % fl, lambda v, fl=fl: op(fl, v.a, v.b, v.k1(0)))
    t('hl/FLAG_EQ', lambda v: op('FLAG_EQ', v.a))
    for cc, ar in [('CC_U<=', 2), ('CC_U>=', 1), ('CC_S<', 2), ('CC_S>', 3), ('CC_S<=', 3), ('CC_S>=', 2), ('CC_U>', 2),
                   ('CC_U<', 1), ('CC_NEG', 1), ('CC_EQ', 1), ('CC_NE', 1), ('CC_POS', 1)]:
        t('hl/%s' % cc, lambda v, cc=cc, ar=ar: op(cc, *[v.f, v.g, v.h][:ar]))
        t('hl/%s/c' % cc, lambda v, cc=cc, ar=ar: op(cc, *([v.k1(0), v.g, v.h][:ar])))
    return T


# ------------------------------------------------------------------------------------------------
# S2: generic typed trees of depth <= 2
BIN = ['+', '*', '^', '&', '|', 'sub2', '<<', '>>', 'a>>', '<<<', '>>>', '/', '%', 'udiv', 'umod', 'sdiv', 'smod']
CMPS = ['==', '<u', '<s', '<=u', '<=s']
FL2 = ['FLAG_EQ_AND', 'FLAG_SIGN_SUB', 'FLAG_EQ_CMP', 'FLAG_ADD_CF', 'FLAG_SUB_CF', 'FLAG_ADD_OF', 'FLAG_SUB_OF']


def _bin(o, x, y):
    if o == 'sub2':
        return ExprOp('-', x, y)
    return ExprOp(o, x, y)


class G(object):
    """Generator state: hands out constant holes in order of appearance."""

    def __init__(self, v):
        self.v = v
        self.i = 0

    def c(self, size):
        self.i += 1
        return self.v.k(self.i - 1, size)


def S2_specs(n=8):
    """Enumerate S2 as compact picklable specs (tuples); build with S2_build."""
    leaves = {n: ['a', 'b', 'c'], 2 * n: ['A', 'C'], 1: ['f', 'c']}

    def d1(size):
        out = []
        if size in (n, 2 * n):
            L = leaves[size]
            v1, v2 = L[0], (L[1] if size == n else L[0])
            pairs = [(v1, v2), (v1, 'c'), ('c', v1), (v1, v1)] if size == n else [(v1, 'c'), ('c', v1), (v1, v1)]
            for o in BIN:
                for x, y in pairs:
                    out.append(('bin', o, ('l', x, size), ('l', y, size)))
            out.append(('un', '-', ('l', v1, size)))
            out.append(('un', 'cntleadzeros', ('l', v1, size)))
            out.append(('un', 'cnttrailzeros', ('l', v1, size)))
            for x, y in [(v1, v2), (v1, 'c'), ('c', v1), ('c', 'c')]:
                out.append(('cond', ('l', 'f', 1), ('l', x, size), ('l', y, size)))
            out.append(('cond', ('l', v1, size), ('l', v2, size), ('l', 'c', size)))
            out.append(('mem', ('l', 'A', 2 * n), size))
        if size == n:
            for (s, e) in [(0, n), (n // 2, n + n // 2), (n, 2 * n)]:
                out.append(('slice', ('l', 'A', 2 * n), s, e))
        if size == 2 * n:
            out.append(('ext', 'zeroExt', ('l', 'a', n), 2 * n))
            out.append(('ext', 'signExt', ('l', 'a', n), 2 * n))
            for x, y in [('a', 'b'), ('a', 'c'), ('c', 'a')]:
                out.append(('compose', ('l', x, n), ('l', y, n)))
        if size == 1:
            for o in CMPS + FL2:
                for x, y in [('a', 'b'), ('a', 'c'), ('c', 'a')]:
                    out.append(('bin', o, ('l', x, n), ('l', y, n)))
            out.append(('un', 'parity', ('l', 'a', n)))
            out.append(('un', 'FLAG_EQ', ('l', 'a', n)))
            out.append(('slice', ('l', 'a', n), n - 1, n))
            out.append(('slice', ('l', 'a', n), 0, 1))
            for cc, ar in [('CC_U<=', 2), ('CC_S<', 2), ('CC_S>', 3), ('CC_U>=', 1), ('CC_NE', 1)]:
                out.append(('cc', cc) + tuple(('l', x, 1) for x in ['f', 'g', 'h'][:ar]))
        return out

    D1 = {s: d1(s) for s in (1, n, 2 * n)}
    specs = []
    for s in (n, 2 * n):
        L = [('l', x, s) for x in leaves[s]]
        for o in BIN:
            for sub in D1[s]:
                for lf in L:
                    specs.append(('bin', o, sub, lf))
                    specs.append(('bin', o, lf, sub))
        for sub in D1[s]:
            specs.append(('un', '-', sub))
            specs.append(('un', 'cntleadzeros', sub))
            specs.append(('un', 'cnttrailzeros', sub))
            specs.append(('mem', sub, 8))
            specs.append(('mem', sub, 16))
            for lf in L[:2] + [('l', 'c', s)]:
                specs.append(('cond', ('l', 'f', 1), sub, lf))
                specs.append(('cond', ('l', 'f', 1), lf, sub))
                specs.append(('cond', sub, lf, ('l', 'c', s)))
        for sub in D1[1]:
            specs.append(('cond', sub, L[0], L[1]))
            specs.append(('cond', sub, L[0], ('l', 'c', s)))
            specs.append(('cond', sub, ('l', 'c', s), ('l', 'c', s)))
    # 1-bit roots over n-bit depth-1 nodes
    Ln = [('l', x, n) for x in leaves[n]]
    for o in CMPS + FL2:
        for sub in D1[n]:
            for lf in Ln:
                specs.append(('bin', o, sub, lf))
                specs.append(('bin', o, lf, sub))
    for sub in D1[n]:
        specs.append(('un', 'parity', sub))
        specs.append(('un', 'FLAG_EQ', sub))
        specs.append(('slice', sub, n - 1, n))
        specs.append(('slice', sub, 1, n - 1))
        specs.append(('ext', 'zeroExt', sub, 2 * n))
        specs.append(('ext', 'signExt', sub, 2 * n))
        for lf in Ln:
            specs.append(('compose', sub, lf))
            specs.append(('compose', lf, sub))
    for sub in D1[2 * n]:
        for (s, e) in [(0, n), (n // 2, n + n // 2), (n, 2 * n), (0, 1), (2 * n - 1, 2 * n), (n - 1, n + 1)]:
            specs.append(('slice', sub, s, e))
    for sub in D1[1]:
        specs.append(('ext', 'zeroExt', sub, n))
        specs.append(('ext', 'signExt', sub, n))
        for cc, ar in [('CC_U<=', 2), ('CC_S<', 2), ('CC_S>=', 2), ('CC_U>', 2)]:
            specs.append(('cc', cc, sub, ('l', 'f', 1)))
            specs.append(('cc', cc, ('l', 'f', 1), sub))
        for cc in ['CC_U>=', 'CC_U<', 'CC_NEG', 'CC_EQ', 'CC_NE', 'CC_POS']:
            specs.append(('cc', cc, sub))
        for cc in ['CC_S>', 'CC_S<=']:
            specs.append(('cc', cc, sub, ('l', 'f', 1), ('l', 'g', 1)))
            specs.append(('cc', cc, ('l', 'f', 1), ('l', 'g', 1), sub))
    # depth-1 trees themselves
    for s in (1, n, 2 * n):
        specs += D1[s]
    return specs


def S2_build(spec, v, g=None):
    g = g or G(v)
    k = spec[0]
    if k == 'l':
        name, size = spec[1], spec[2]
        if name == 'c' or name == 'C':
            return g.c(size)
        return ExprId(name, size)
    if k == 'bin':
        x = S2_build(spec[2], v, g)
        y = S2_build(spec[3], v, g)
        return _bin(spec[1], x, y)
    if k == 'un':
        return ExprOp(spec[1], S2_build(spec[2], v, g))
    if k == 'cc':
        return ExprOp(spec[1], *[S2_build(s, v, g) for s in spec[2:]])
    if k == 'cond':
        return ExprCond(S2_build(spec[1], v, g), S2_build(spec[2], v, g), S2_build(spec[3], v, g))
    if k == 'mem':
        return ExprMem(S2_build(spec[1], v, g), spec[2])
    if k == 'slice':
        return ExprSlice(S2_build(spec[1], v, g), spec[2], spec[3])
    if k == 'ext':
        x = S2_build(spec[2], v, g)
        return ExprOp('%s_%d' % (spec[1], spec[3]), x)
    if k == 'compose':
        return ExprCompose(*[S2_build(s, v, g) for s in spec[1:]])
    raise ValueError(spec)


def spec_str(spec):
    k = spec[0]
    if k == 'l':
        return spec[1]
    if k in ('bin',):
        return "(%s %s %s)" % (spec_str(spec[2]), spec[1], spec_str(spec[3]))
    if k == 'un':
        return "%s(%s)" % (spec[1], spec_str(spec[2]))
    if k == 'cc':
        return "%s(%s)" % (spec[1], ",".join(spec_str(s) for s in spec[2:]))
    if k == 'cond':
        return "(%s?%s:%s)" % tuple(spec_str(s) for s in spec[1:4])
    if k == 'mem':
        return "@%d[%s]" % (spec[2], spec_str(spec[1]))
    if k == 'slice':
        return "%s[%d:%d]" % (spec_str(spec[1]), spec[2], spec[3])
    if k == 'ext':
        return "%s_%d(%s)" % (spec[1], spec[3], spec_str(spec[2]))
    if k == 'compose':
        return "{%s}" % ",".join(spec_str(s) for s in spec[1:])
    return str(spec)
