"""irsym -- small symbolic executor for miasm IR (AssignBlock / IRBlock / IRCFG) over z3 state.

Registers are a map ExprId -> bit-vector term (initially the free variable of the same name), memory is the
initial uninterpreted byte function MEM plus an ordered log of byte writes; AssignBlocks are evaluated in
parallel through refsem; IRDst is followed by forking on its condition.  Used as the direct-execution oracle of
C12 and to compare programs in C36 / C37 / C39 / C40.
"""
import z3

from vf.refsem import Ref


class State(object):
    def __init__(self, ref0):
        self.ref0 = ref0            # Ref giving names to initial registers / MEM
        self.regs = {}              # (name, size) -> z3 term
        self.writes = []            # [(addr64, byte)] oldest first
        self.events = []            # observable events: ('write', addr64, byte) / ('call', name, args)
        self.pc = []                # path condition (list of z3 Bool)
        self.accesses = []          # byte addresses (z3 64-bit terms) read or written along the path

    def copy(self):
        s = State(self.ref0)
        s.regs = dict(self.regs)
        s.writes = list(self.writes)
        s.events = list(self.events)
        s.pc = list(self.pc)
        s.accesses = list(self.accesses)
        return s

    def reg(self, name, size):
        k = (name, size)
        if k in self.regs:
            return self.regs[k]
        return self.ref0.var(name, size)

    def load(self, a64):
        r = self.ref0.mem(a64)
        for wa, wb in self.writes:
            r = z3.If(a64 == wa, wb, r)
        return r


class Exec(Ref):
    """refsem evaluated in a State (register values and memory of the state)."""

    def __init__(self, state):
        Ref.__init__(self, ids=state.ref0.ids, mem=state.ref0.mem)
        self.ufs = state.ref0.ufs
        self.loc_db = state.ref0.loc_db
        self.state = state

    def var(self, name, size):
        return self.state.reg(name, size)

    def read_mem(self, p, psize, size):
        nbytes = (size + 7) // 8
        bs = []
        for i in range(nbytes):
            a = p + z3.BitVecVal(i, psize)
            a64 = z3.ZeroExt(64 - psize, a) if psize < 64 else a
            self.state.accesses.append(a64)
            bs.append(self.state.load(a64))
        r = bs[0]
        for b in bs[1:]:
            r = z3.Concat(b, r)
        if nbytes * 8 != size:
            r = z3.Extract(size - 1, 0, r)
        return r


def a64_of(p, psize, i):
    a = p + z3.BitVecVal(i, psize)
    return z3.ZeroExt(64 - psize, a) if psize < 64 else a


def exec_assignblk(state, assignblk, record_events=True):
    """Parallel assignment: every source and destination pointer is evaluated in the OLD state."""
    ex = Exec(state)
    reg_up, mem_up = [], []
    for dst, src in assignblk.items():
        v = ex.tr(src)
        if dst.is_id():
            reg_up.append(((dst.name, dst.size), v))
        elif dst.is_mem():
            p = ex.tr(dst.ptr)
            mem_up.append((p, dst.ptr.size, dst.size, v))
        else:
            raise TypeError(dst)
    for k, v in reg_up:
        state.regs[k] = v
    for p, psize, size, v in mem_up:
        for i in range(size // 8):
            a = a64_of(p, psize, i)
            byte = z3.Extract(8 * i + 7, 8 * i, v)
            state.accesses.append(a)
            state.writes.append((a, byte))
            if record_events:
                state.events.append(('write', a, byte))


def exec_irblock(state, irblock, irdst):
    """Execute every AssignBlock; returns the z3 term of the next destination."""
    for ab in irblock:
        exec_assignblk(state, ab)
    return state.reg(irdst.name, irdst.size)


def simplify_dst_options(dst_expr):
    """Possible next locations of an IRDst *expression*: list of (condition Expr list, target Expr)."""
    out = []

    def rec(e, conds):
        if e.is_cond():
            rec(e.src1, conds + [(e.cond, True)])
            rec(e.src2, conds + [(e.cond, False)])
        else:
            out.append((conds, e))
    rec(dst_expr, [])
    return out


# ------------------------------------------------------------------------------------------------
# Bounded path exploration of an IRCFG and equivalence of two graphs for every initial state

class Path(object):
    def __init__(self, state, pc, exit_, cut=False, blocks=()):
        self.state = state
        self.pc = pc
        self.exit = exit_          # ('loc', key) | ('int', value) | ('dyn', z3 term) | ('cut', why)
        self.cut = cut
        self.blocks = list(blocks)


def dst_options(ex, dst_expr, loc_db):
    """Possible successors of an IRDst source expression evaluated through `ex` (Exec on the old state):
    list of (z3 condition, target) with target ('loc', LocKey) / ('dyn', term)."""
    out = []

    def rec(e, cond):
        if e.is_cond():
            c = ex.tr(e.cond) != 0
            rec(e.src1, z3.And(cond, c))
            rec(e.src2, z3.And(cond, z3.Not(c)))
        elif e.is_loc():
            out.append((cond, ('loc', e.loc_key)))
        elif e.is_int() and loc_db is not None and loc_db.get_offset_location(int(e)) is not None:
            out.append((cond, ('loc', loc_db.get_offset_location(int(e)))))
        elif e.is_int():
            out.append((cond, ('int', int(e))))
        else:
            out.append((cond, ('dyn', ex.tr(e))))
    rec(dst_expr, z3.BoolVal(True))
    return out


class Explorer(object):
    def __init__(self, ircfg, irdst, loc_db, max_blocks=24, max_visits=3, timeout_ms=10000, track_order=False):
        self.g = ircfg
        self.irdst = irdst
        self.loc_db = loc_db
        self.max_blocks = max_blocks
        self.max_visits = max_visits
        self.solver = z3.Solver()
        self.solver.set('timeout', timeout_ms)
        self.queries = 0
        self.track_order = track_order
        self.deadline = None

    def feasible(self, pcs):
        self.queries += 1
        self.solver.push()
        self.solver.add(*pcs)
        r = self.solver.check()
        self.solver.pop()
        return r != z3.unsat, r == z3.unknown

    def run(self, head, ref0, pre=()):
        """All bounded paths from `head` under precondition `pre` (list of z3 Bool)."""
        paths = []
        st0 = State(ref0)
        st0.pc = list(pre)
        st0.order = []
        work = [(st0, head, [], {})]
        import time
        while work:
            st, loc, hist, visits = work.pop()
            if self.deadline is not None and time.time() > self.deadline:
                paths.append(Path(st, st.pc, ('cut', 'budget'), cut=True, blocks=hist))
                continue
            blk = self.g.blocks.get(loc)
            if blk is None:
                paths.append(Path(st, st.pc, ('loc', loc), blocks=hist))
                continue
            if len(hist) >= self.max_blocks or visits.get(loc, 0) >= self.max_visits:
                paths.append(Path(st, st.pc, ('cut', 'bound'), cut=True, blocks=hist))
                continue
            visits = dict(visits)
            visits[loc] = visits.get(loc, 0) + 1
            hist = hist + [loc]
            opts = None
            for ab in blk:
                ex = Exec(st)
                if self.irdst in ab:
                    opts = dst_options(ex, ab[self.irdst], self.loc_db)
                if self.track_order:
                    for d in ab:
                        if d.is_id() and d != self.irdst:
                            st.order.append((d.name, d.size))
                exec_assignblk(st, ab)
            if opts is None:
                paths.append(Path(st, st.pc, ('cut', 'no IRDst'), cut=True, blocks=hist))
                continue
            for cond, tgt in opts:
                cond = z3.simplify(cond)
                if z3.is_false(cond):
                    continue
                pcs = st.pc + ([cond] if not z3.is_true(cond) else [])
                if not z3.is_true(cond):
                    ok, unk = self.feasible(pcs)
                    if not ok:
                        continue
                st2 = st.copy()
                st2.order = list(getattr(st, 'order', []))
                st2.pc = pcs
                if tgt[0] == 'loc' and tgt[1] in self.g.blocks:
                    work.append((st2, tgt[1], hist, visits))
                else:
                    paths.append(Path(st2, pcs, tgt, blocks=hist))
        return paths


def events_equal(ev1, ev2):
    """z3 Bool: the two observable event sequences are the same (None if shapes differ)."""
    if len(ev1) != len(ev2):
        return None
    cs = []
    for a, b in zip(ev1, ev2):
        if a[0] != b[0]:
            return None
        if a[0] == 'write':
            if a[1].sort() != b[1].sort() or a[2].sort() != b[2].sort():
                return None
            cs.append(z3.And(a[1] == b[1], a[2] == b[2]))
        else:
            if a[1] != b[1] or len(a[2]) != len(b[2]):
                return None
            cs += [x == y for x, y in zip(a[2], b[2])]
    return z3.And(*cs) if cs else z3.BoolVal(True)


def exits_equal(e1, e2):
    if e1[0] != e2[0]:
        return None
    if e1[0] == 'dyn':
        return e1[1] == e2[1] if e1[1].sort() == e2[1].sort() else None
    return z3.BoolVal(e1[1] == e2[1])


def base_key(term):
    """'Symbolic base' of an address term: the set of free initial-state variables it is built on, plus whether it
    depends on a value loaded from memory.  Addresses with different keys are assumed not to alias (miasm's
    documented non-aliasing assumption for different symbolic bases)."""
    names = set()
    has_mem = [False]
    seen = set()

    def walk(t):
        if t.get_id() in seen:
            return
        seen.add(t.get_id())
        if z3.is_app(t):
            d = t.decl()
            if d.kind() == z3.Z3_OP_UNINTERPRETED:
                if t.num_args() == 0:
                    nm = d.name()
                    names.add(nm[:-5] if nm.endswith('_init') else nm)   # X_init names the initial value of X
                else:
                    has_mem[0] = True
                    return          # the loaded value is a base of its own
            for c in t.children():
                walk(c)
    walk(term)
    return (frozenset(names), has_mem[0])


def non_aliasing_hypotheses(access_lists):
    """Pairwise distinctness of byte addresses that belong to different symbolic bases."""
    groups = {}
    seen = set()
    for lst in access_lists:
        for a in lst:
            a = z3.simplify(a)
            if a.get_id() in seen:
                continue
            seen.add(a.get_id())
            groups.setdefault(base_key(a), []).append(a)
    keys = list(groups)
    hyp = []
    for i in range(len(keys)):
        for j in range(i + 1, len(keys)):
            for a in groups[keys[i]]:
                for b in groups[keys[j]]:
                    hyp.append(a != b)
    return hyp
