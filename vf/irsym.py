"""irsym -- small symbolic executor for miasm IR (AssignBlock / IRBlock / IRCFG) over z3 state.

Registers are a map ExprId -> bit-vector term (initially the free variable of the same name), memory is the
initial uninterpreted byte function MEM plus an ordered log of byte writes; AssignBlocks are evaluated in
parallel through refsem; IRDst is followed by forking on its condition.  Used as the direct-execution oracle of
C12 and to compare programs in C36 / C37 / C39 / C40.
"""
import z3

from vf.refsem import Ref


class State(object):
    def __init__(self, ref0):
        self.ref0 = ref0            # Ref giving names to initial registers / MEM
        self.regs = {}              # (name, size) -> z3 term
        self.writes = []            # [(addr64, byte)] oldest first
        self.events = []            # observable events: ('write', addr64, byte) / ('call', name, args)
        self.pc = []                # path condition (list of z3 Bool)

    def copy(self):
        s = State(self.ref0)
        s.regs = dict(self.regs)
        s.writes = list(self.writes)
        s.events = list(self.events)
        s.pc = list(self.pc)
        return s

    def reg(self, name, size):
        k = (name, size)
        if k in self.regs:
            return self.regs[k]
        return self.ref0.var(name, size)

    def load(self, a64):
        r = self.ref0.mem(a64)
        for wa, wb in self.writes:
            r = z3.If(a64 == wa, wb, r)
        return r


class Exec(Ref):
    """refsem evaluated in a State (register values and memory of the state)."""

    def __init__(self, state):
        Ref.__init__(self, ids=state.ref0.ids, mem=state.ref0.mem)
        self.ufs = state.ref0.ufs
        self.loc_db = state.ref0.loc_db
        self.state = state

    def var(self, name, size):
        return self.state.reg(name, size)

    def read_mem(self, p, psize, size):
        nbytes = (size + 7) // 8
        bs = []
        for i in range(nbytes):
            a = p + z3.BitVecVal(i, psize)
            a64 = z3.ZeroExt(64 - psize, a) if psize < 64 else a
            bs.append(self.state.load(a64))
        r = bs[0]
        for b in bs[1:]:
            r = z3.Concat(b, r)
        if nbytes * 8 != size:
            r = z3.Extract(size - 1, 0, r)
        return r


def a64_of(p, psize, i):
    a = p + z3.BitVecVal(i, psize)
    return z3.ZeroExt(64 - psize, a) if psize < 64 else a


def exec_assignblk(state, assignblk, record_events=True):
    """Parallel assignment: every source and destination pointer is evaluated in the OLD state."""
    ex = Exec(state)
    reg_up, mem_up = [], []
    for dst, src in assignblk.items():
        v = ex.tr(src)
        if dst.is_id():
            reg_up.append(((dst.name, dst.size), v))
        elif dst.is_mem():
            p = ex.tr(dst.ptr)
            mem_up.append((p, dst.ptr.size, dst.size, v))
        else:
            raise TypeError(dst)
    for k, v in reg_up:
        state.regs[k] = v
    for p, psize, size, v in mem_up:
        for i in range(size // 8):
            a = a64_of(p, psize, i)
            byte = z3.Extract(8 * i + 7, 8 * i, v)
            state.writes.append((a, byte))
            if record_events:
                state.events.append(('write', a, byte))


def exec_irblock(state, irblock, irdst):
    """Execute every AssignBlock; returns the z3 term of the next destination."""
    for ab in irblock:
        exec_assignblk(state, ab)
    return state.reg(irdst.name, irdst.size)


def simplify_dst_options(dst_expr):
    """Possible next locations of an IRDst *expression*: list of (condition Expr list, target Expr)."""
    out = []

    def rec(e, conds):
        if e.is_cond():
            rec(e.src1, conds + [(e.cond, True)])
            rec(e.src2, conds + [(e.cond, False)])
        else:
            out.append((conds, e))
    rec(dst_expr, [])
    return out
