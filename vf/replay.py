"""Replay counterexamples in a fresh process on unpatched miasm (hash-consing on, no stubs)."""
import importlib
import json
import sys
import traceback


def main():
    mod = importlib.import_module(sys.argv[1])
    for path in sys.argv[2:]:
        with open(path) as f:
            w = json.load(f)
        try:
            ok, detail = mod.replay(w['witness'])
        except Exception as e:
            ok, detail = None, "replay raised %s: %s" % (type(e).__name__, traceback.format_exc()[-600:])
        print("REPLAY " + json.dumps(dict(path=path, reproduced=ok, detail=str(detail)[:1000])))
        sys.stdout.flush()


if __name__ == '__main__':
    main()
