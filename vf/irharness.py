"""Shared harness of C36 (IR simplification), C37 (SSA / out-of-SSA), C40 (constant propagation).

program -> real transformation pass -> vf/irprog.compare_graphs (z3: same behaviour for every initial state).
"""
import random

from vf import common, irprog

CHUNK = 6


def programs(tier, seed, per_skeleton_quick=5, per_skeleton_thorough=60, dump=True):
    """The generated program set is FIXED (independent of VERIF_SEED): known findings are identified by program id, and
    one root cause shows up on many programs.  quick = the first programs of each skeleton's thorough stream."""
    n = per_skeleton_quick if tier == 'quick' else per_skeleton_thorough
    out = []
    for k, sk in enumerate(irprog.SKELETONS):
        rnd = random.Random(20260921 + 1000 * k)
        for i in range(n):
            out.append(('gen:%s:%d' % (sk, i), 'gen', irprog.gen_program(rnd, sk, dump=dump)))
    for name, txt in irprog.X86_FUNCS:
        out.append(('x86:%s' % name, 'x86', txt))
    return out


def build(kind, payload, model_call=True):
    from miasm.core.locationdb import LocationDB
    loc_db = LocationDB()
    machine, lifter = irprog.make_lifter(loc_db, model_call)
    if kind == 'gen':
        g, head = irprog.build_generated(payload, loc_db, lifter)
    else:
        g, head = irprog.build_lifted(payload, loc_db, machine, lifter)
    return loc_db, machine, lifter, g, head


def ssa_structure_problems(ssa_graph, head, irdst, ssa_vars):
    """Structural SSA validity: single definition, definitions dominate ordinary uses, a phi argument is defined on
    the path from the corresponding predecessor.  Returns list of strings."""
    from miasm.expression.expression import get_expr_ids
    probs = []
    defs = {}
    for loc, blk in ssa_graph.blocks.items():
        for idx, ab in enumerate(blk):
            for dst in ab:
                if dst.is_id() and dst != irdst and dst in ssa_vars:
                    if dst in defs:
                        probs.append("SSA variable %s defined twice" % dst)
                    defs[dst] = (loc, idx)
    doms = ssa_graph.compute_dominators(head)
    for loc, blk in ssa_graph.blocks.items():
        if loc not in doms:
            continue
        for idx, ab in enumerate(blk):
            for dst, src in ab.items():
                if src.is_op('Phi'):
                    for arg in src.args:
                        if arg in ssa_vars and arg in defs:
                            if not any(defs[arg][0] in doms.get(pred, ()) for pred in ssa_graph.predecessors(loc)):
                                probs.append("phi argument %s is not defined on a path from a predecessor of %s" % (arg, loc))
                    continue
                reads = set(get_expr_ids(src))
                if dst.is_mem():
                    reads.update(get_expr_ids(dst.ptr))
                for reg in reads:
                    if reg not in ssa_vars or reg not in defs:
                        continue
                    dloc, didx = defs[reg]
                    if dloc == loc:
                        if not didx < idx:
                            probs.append("%s used before its definition in %s" % (reg, loc))
                    elif dloc not in doms[loc]:
                        probs.append("definition of %s does not dominate its use in %s" % (reg, loc))
    return probs


def transform(prop, variant, lifter, g, head):
    """Apply the real pass.  -> (new graph, mapping var->orig register, extra problems list)"""
    from miasm.analysis.ssa import SSADiGraph
    from miasm.analysis.outofssa import UnSSADiGraph
    from miasm.analysis.data_flow import DiGraphLivenessSSA
    from miasm.analysis.simplifier import IRCFGSimplifierCommon, IRCFGSimplifierSSA
    probs = []
    if variant == 'ssa-unssa':
        ssa = SSADiGraph(g)
        ssa.transform(head)
        probs += ssa_structure_problems(irprog.copy_graph(ssa.graph), head, lifter.IRDst, set(ssa.ssa_variable_to_expr))
        liv = DiGraphLivenessSSA(ssa.graph)
        liv.init_var_info(lifter)
        liv.compute_liveness()
        UnSSADiGraph(ssa, head, liv)
        return ssa.graph, dict(ssa.ssa_variable_to_expr), probs
    if variant == 'ssa-propagate-unssa':
        simp = IRCFGSimplifierSSA(lifter)
        ssa = simp.ircfg_to_ssa(g, head)
        simp.do_propagate_expressions(ssa, head)
        simp.do_del_dummy_phi(ssa, head)
        new = simp.ssa_to_unssa(ssa, head)
        return new, dict(simp.all_ssa_vars), probs
    if variant == 'simp-common':
        simp = IRCFGSimplifierCommon(lifter)
        simp.simplify(g, head)
        return g, {}, probs
    if variant == 'simp-ssa':
        simp = IRCFGSimplifierSSA(lifter)
        new = simp.simplify(g, head)
        return new, dict(simp.all_ssa_vars), probs
    if variant == 'cst-propag':
        from miasm.analysis.cst_propag import propagate_cst_expr
        propagate_cst_expr(lifter, g, head, lifter.arch.regs.regs_init)
        return g, {}, probs
    raise ValueError(variant)


def undefined_reads(orig, new, regs):
    from miasm.expression.expression import get_expr_ids
    known = set()
    for blk in orig.blocks.values():
        for ab in blk:
            for d, s_ in ab.items():
                known.update(x.name for x in get_expr_ids(d))
                known.update(x.name for x in get_expr_ids(s_))
    known.update(r.name for r in regs.regs_init.values())
    known.update(r.name for r in regs.regs_init)
    defined, read = set(), set()
    for blk in new.blocks.values():
        for ab in blk:
            for d, s_ in ab.items():
                if d.is_id():
                    defined.add(d.name)
                else:
                    read.update(x.name for x in get_expr_ids(d))
                read.update(x.name for x in get_expr_ids(s_))
    return read - defined - known


def check_program(prop, variant, kind, payload, timeout_s, bug=None):
    import z3
    loc_db, machine, lifter, g, head = build(kind, payload)
    orig = irprog.copy_graph(g)
    new, mapping, probs = transform(prop, variant, lifter, g, head)
    regs = lifter.arch.regs
    pre = None
    all_regs = None
    out_regs = [regs.EAX, regs.ESP]
    check_events = True
    if prop == 'C37':
        check_events = False                     # C37 speaks of register and memory effects
    if prop == 'C40':
        # from the state where each register holds its initial value: X == X_init
        from vf.refsem import Ref
        pre = []
        all_regs = [regs.EAX, regs.EBX, regs.ECX, regs.EDX, regs.ESI, regs.EDI, regs.ESP, regs.EBP]
        out_regs = []
        for r, ri in regs.regs_init.items():
            if r.size == 32 and r in all_regs:
                pre.append(z3.BitVec(r.name, r.size) == z3.BitVec(ri.name, ri.size))
    if bug == 'compare-with-empty':
        from miasm.ir.ir import IRBlock, AssignBlock
        from miasm.expression.expression import ExprInt
        new = irprog.copy_graph(orig)
        blk = new.blocks[head]
        new.add_irblock(IRBlock(loc_db, head, [AssignBlock({regs.EAX: ExprInt(0x1234, 32)})] + list(blk)))
    out = irprog.compare_graphs(orig, new, head, head, lifter.IRDst, loc_db, out_regs=out_regs, mapping=mapping,
                                all_regs=all_regs, timeout_ms=timeout_s * 1000, check_events=check_events, pre=pre)
    for p in probs:
        out['nob'] += 1
        out['viol'].append(dict(ob='ssa-structure', detail=p, ids={}, inputs={}))
    # a transformed graph must not read a variable that nothing defines (e.g. an SSA version whose definition was removed):
    # structural, decided without the solver, replayed by recomputation
    out['nob'] += 1
    und = undefined_reads(orig, new, regs)
    if und:
        out['viol'].append(dict(ob='no-undefined-variable', detail="the transformed graph reads %s, which is neither a register of "
                                "the original program nor defined anywhere" % ", ".join(sorted(und)), ids={}, inputs={}))
    else:
        out['ndis'] += 1
    out['nob'] += 1 if not probs and variant == 'ssa-unssa' else 0
    out['ndis'] += 1 if not probs and variant == 'ssa-unssa' else 0
    out['orig'] = irprog.dump_graph(orig, 1200)
    out['new'] = irprog.dump_graph(new, 1200)
    return out


def make_tasks(progs, variants, tier):
    ts = []
    items = [(pid, kind, payload, v) for (pid, kind, payload) in progs for v in variants]
    for i in range(0, len(items), CHUNK):
        ts.append(dict(id='prog:%05d' % i, items=items[i:i + CHUNK], tier=tier))
    return ts


def run_task(task, prop, meta):
    import time
    res = common.new_result(task)
    known = [k for k in common.load_known(prop) if k.get('status', 'known') == 'known']
    tmo = meta['bounds'][task['tier']]['query_timeout_s']
    t0 = time.time()
    for pid, kind, payload, variant in task['items']:
        site = "%s:%s" % (pid, variant)
        try:
            out = check_program(prop, variant, kind, payload, tmo, task.get('bug'))
        except Exception as ex:
            import traceback
            res['obligations'] += 1
            res['violations'].append(dict(site=site, ob='no-exception', kind=kind, payload=payload, variant=variant, inputs={},
                                          exc="%s: %s" % (type(ex).__name__, ex), tb=traceback.format_exc()[-900:]))
            continue
        res['obligations'] += out['nob']
        res['discharged'] += out['ndis']
        res['queries'] += out['queries']
        res['paths'] += out['paths']
        res['nontrivial'] += 1 if out['paths'] >= 2 else 0
        for v in out['viol']:
            v.update(site=site, kind=kind, payload=payload, variant=variant, orig=out['orig'], new=out['new'])
            for k in known:
                if common.site_matches(k, site) and k.get('ob') in (None, v['ob']):
                    v['known'] = k['id']
            res['violations'].append(v)
        for x in sorted(set(out['inc'])):
            res['inconclusive'].append(dict(site=site, why=x))
        if out['cut']:
            res.setdefault('cut', 0)
            res['cut'] += out['cut']
        if len(res['samples']) < 1:
            res['samples'].append(dict(program=pid, variant=variant, original=out['orig'][:500], transformed=out['new'][:500],
                                       paths=out['paths'], cut_paths=out['cut']))
    res['solver_s'] = time.time() - t0
    return res


def replay(w, prop):
    kind, payload, variant = w['kind'], w['payload'], w['variant']
    if w.get('ob') == 'no-exception':
        try:
            check_program(prop, variant, kind, payload, 20)
        except Exception as ex:
            return True, "%s on %s raised %s: %s" % (variant, w.get('site'), type(ex).__name__, ex)
        return False, "no exception"
    if w.get('ob') in ('ssa-structure', 'no-undefined-variable'):
        out = check_program(prop, variant, kind, payload, 30)
        for v in out['viol']:
            if v['ob'] == w.get('ob'):
                return True, "%s: %s\nTRANSFORMED\n%s" % (variant, v.get('detail'), out.get('new', ''))
        return False, "the transformed graph is structurally valid"
    # concrete replay with the independent evaluator from the model's initial state
    loc_db, machine, lifter, g, head = build(kind, payload)
    orig = irprog.copy_graph(g)
    new, mapping, probs = transform(prop, variant, lifter, g, head)
    regs0 = {k: v for k, v in w.get('ids', {}).items()}
    if prop == 'C40':
        for r, ri in lifter.arch.regs.regs_init.items():
            if ri.name in regs0:
                regs0[r.name] = regs0[ri.name]
    mem0 = {int(k): v for k, v in w.get('membytes', {}).items()}
    r1 = irprog.concrete_run(orig, head, lifter.IRDst, loc_db, regs0, mem0)
    r2 = irprog.concrete_run(new, head, lifter.IRDst, loc_db, regs0, mem0)
    diffs = []
    if r1['exit'] != r2['exit']:
        diffs.append("exit %r vs %r" % (r1['exit'], r2['exit']))
    keys = set(r1['mem']) | set(r2['mem'])
    md = [a for a in sorted(keys) if r1['mem'].get(a, mem0.get(a, 0)) != r2['mem'].get(a, mem0.get(a, 0))]
    if md:
        diffs.append("memory differs at %s" % ", ".join("0x%x (0x%02x vs 0x%02x)" % (a, r1['mem'].get(a, 0), r2['mem'].get(a, 0))
                                                       for a in md[:4]))
    names = ['EAX', 'ESP'] if prop != 'C40' else ['EAX', 'EBX', 'ECX', 'EDX', 'ESI', 'EDI', 'ESP', 'EBP']
    inv = {}
    for v_, o_ in mapping.items():
        inv.setdefault(o_.name, set()).add(v_.name)
    for nm in names:
        v1 = r1['regs'].get(nm, regs0.get(nm, 0))
        cand = [x for x in reversed(r2['order']) if x == nm or x in inv.get(nm, ())]
        v2 = r2['regs'].get(cand[0]) if cand else regs0.get(nm, 0)
        if v1 != v2:
            diffs.append("%s = 0x%x vs 0x%x" % (nm, v1, v2))
    detail = "%s from initial state %r: original runs %s, transformed runs %s" % (variant, regs0, r1['trace'], r2['trace'])
    if diffs:
        return True, detail + " ; DIFFERENCES: " + " ; ".join(diffs) + "\nORIGINAL\n%s\nTRANSFORMED\n%s" % (
            irprog.dump_graph(orig), irprog.dump_graph(new))
    return False, detail + " ; same exit, memory and output registers"
