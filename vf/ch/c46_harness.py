"""CrossHair contracts for C46 (sandboxed paths).  Run by vf/props/c46.py: `crosshair check <this file>:<line>`.

Stubs (part of the claim): os.path.normpath -> CPython's pure-Python posixpath fallback (the C accelerator
realises symbolic strings); os.path.islink / os.readlink -> an in-memory symbolic-link table (LINKS) standing
for a symlink layout inside the sandbox.
"""
import os
import posixpath

ALPHABET = "/\\.ab"
MAXLEN = int(os.environ.get("VERIF_C46_MAXLEN", "4"))


def py_normpath(path):
    """posixpath.normpath, pure-Python version (CPython Lib/posixpath.py fallback)."""
    sep, empty, dot, dotdot = '/', '', '.', '..'
    if path == empty:
        return dot
    initial_slashes = path.startswith(sep)
    if (initial_slashes and path.startswith(sep * 2) and not path.startswith(sep * 3)):
        initial_slashes = 2
    comps = path.split(sep)
    new_comps = []
    for comp in comps:
        if comp in (empty, dot):
            continue
        if (comp != dotdot or (not initial_slashes and not new_comps) or (new_comps and new_comps[-1] == dotdot)):
            new_comps.append(comp)
        elif new_comps:
            new_comps.pop()
    comps = new_comps
    path = sep.join(comps)
    if initial_slashes:
        path = sep * initial_slashes + path
    return path or dot


posixpath.normpath = py_normpath
os.path.normpath = py_normpath

from miasm.os_dep.common import unix_to_sbpath, windows_to_sbpath, BASE_SB_PATH   # noqa: E402
from miasm.os_dep.linux import environment as ENV                                  # noqa: E402

BASE = "/sb"
# symlink layouts inside the sandbox: guest-visible link path (host side) -> target
LAYOUTS = {
    "none": {},
    "abs": {BASE + "/a": "/b"},                 # absolute target (re-anchored under the base)
    "up": {BASE + "/a": ".."},                  # relative target climbing
    "upup": {BASE + "/a/b": "../../.."},        # deeper climb
    "chain": {BASE + "/a": "b", BASE + "/b": "/.."},
}
_layout = [LAYOUTS["none"]]
os.path.islink = lambda p: p in _layout[0]
os.readlink = lambda p: _layout[0][p]
ENV.os.path.islink = os.path.islink
ENV.os.readlink = os.readlink


def inside(base: str, out: str) -> bool:
    """Lexical containment: after resolving '.' and '..' components, `out` never leaves `base`."""
    if not (out == base or out.startswith(base + "/")):
        return False
    depth = 0
    for comp in out[len(base):].split("/"):
        if comp == "" or comp == ".":
            continue
        if comp == "..":
            depth -= 1
            if depth < 0:
                return False
        else:
            depth += 1
    return True


def allowed(path: str) -> bool:
    return len(path) <= MAXLEN and all(c in ALPHABET for c in path)


def check_unix(path: str) -> bool:
    """
    pre: allowed(path)
    post: _
    """
    return inside(BASE_SB_PATH, unix_to_sbpath(path))


def check_win(path: str) -> bool:
    """
    pre: allowed(path)
    post: _
    """
    return inside(BASE_SB_PATH, windows_to_sbpath(path).replace(os.sep, "/"))


def _resolve(path: str, layout: str, follow: bool) -> bool:
    _layout[0] = LAYOUTS[layout]
    fs = ENV.FileSystem(BASE, None)
    out = fs.resolve_path(path, follow_link=follow)
    if follow and out in _layout[0]:
        return False          # a followed path must be fully resolved: it cannot itself be a symbolic link
    return inside(BASE, out)


def check_resolve_none(path: str) -> bool:
    """
    pre: allowed(path)
    post: _
    """
    return _resolve(path, "none", True)


def check_resolve_abs(path: str) -> bool:
    """
    pre: allowed(path)
    post: _
    """
    return _resolve(path, "abs", True)


def check_resolve_up(path: str) -> bool:
    """
    pre: allowed(path)
    post: _
    """
    return _resolve(path, "up", True)


def check_resolve_upup(path: str) -> bool:
    """
    pre: allowed(path)
    post: _
    """
    return _resolve(path, "upup", True)


def check_resolve_chain(path: str) -> bool:
    """
    pre: allowed(path)
    post: _
    """
    return _resolve(path, "chain", True)


def check_resolve_nofollow(path: str) -> bool:
    """
    pre: allowed(path)
    post: _
    """
    return _resolve(path, "abs", False)


def twin_must_fail(path: str) -> bool:
    """
    pre: allowed(path)
    post: _
    """
    # vacuity guard: a deliberately wrong claim (no result ever contains a dot) must be refuted
    return "." not in unix_to_sbpath(path)[len(BASE_SB_PATH):]


CHECKS = ["check_unix", "check_win", "check_resolve_none", "check_resolve_abs", "check_resolve_up", "check_resolve_upup",
          "check_resolve_chain", "check_resolve_nofollow"]
