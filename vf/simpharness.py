"""Shared harness of C01 (meaning preserved, never raises) and C02 (stable fixed point).

A task = (template, base width n, simplifier configuration).  The real simplifier runs on the template
whose every constant is a SymInt over its full width; each path ends in solver obligations.
"""
import random
import sys

from vf import common, adapt

SIMPLIFIERS = ['expr_simp', 'expr_simp_explicit', 'expr_simp_high_to_explicit']
APPLY_CAP = 3000

_S1 = [None]
_S2 = {}


def s1():
    if _S1[0] is None:
        from vf import templates
        _S1[0] = templates.S1()
    return _S1[0]


def s2(n):
    if n not in _S2:
        from vf import templates
        _S2[n] = templates.S2_specs(n)
    return _S2[n]


def build_template(task, const_factory):
    from vf import templates
    v = templates.V(task['n'], const_factory)
    if task['set'] == 'S1':
        name, fn = s1()[task['idx']]
        assert name == task['name'], (name, task['name'])
        return fn(v)
    spec = s2(task['n'])[task['idx']]
    return templates.S2_build(spec, v)


def get_simp(name):
    import miasm.expression.simplifications as S
    return getattr(S, name)


class NonTermination(Exception):
    pass


class time_limit(object):
    """Wall-clock watchdog around one call of the code under test (SIGALRM): a rewrite that does not
    return within the limit is reported as non-termination (and then replayed concretely)."""

    def __init__(self, seconds):
        self.seconds = seconds

    def _fire(self, signum, frame):
        raise NonTermination("no result after %d s" % self.seconds)

    def __enter__(self):
        import signal
        self.old = signal.signal(signal.SIGALRM, self._fire)
        signal.setitimer(signal.ITIMER_REAL, self.seconds)

    def __exit__(self, *a):
        import signal
        signal.setitimer(signal.ITIMER_REAL, 0)
        signal.signal(signal.SIGALRM, self.old)
        return False


_counter = [0]
_wrapped = [False]


def wrap_apply_simp():
    if _wrapped[0]:
        return
    _wrapped[0] = True
    import miasm.expression.simplifications as S
    orig = S.ExpressionSimplifier.apply_simp

    def apply_simp(self, expression):
        _counter[0] += 1
        if _counter[0] > APPLY_CAP:
            raise NonTermination("more than %d rule applications" % APPLY_CAP)
        return orig(self, expression)
    S.ExpressionSimplifier.apply_simp = apply_simp


def uses_heavy_arith(e):
    """Does the template multiply/divide two non-constant operands?  (bounded to <= 8 bits)"""
    heavy = [False]

    def cb(x):
        if x.is_op() and x.op in ('*', '/', '%', 'udiv', 'umod', 'sdiv', 'smod', '**'):
            heavy[0] = True
        return x
    e.visit(cb)
    return heavy[0]


def run_task(task, mode, prop, meta):
    """mode: 'meaning' (C01) or 'fixpoint' (C02)."""
    import z3
    adapt.install()
    wrap_apply_simp()
    from vf.symx import Engine, SymInt, Inconclusive, PathAbort
    from vf.refsem import Ref
    res = common.new_result(task)
    tmo = task.get('timeout_s', 10)
    eng = Engine(timeout_ms=tmo * 1000, max_paths=task.get('max_paths', 4000))
    import time
    eng.deadline = time.time() + task.get('budget_s', 120)
    known = common.load_known(prop)
    site = task['id']
    eng.on_path_end = common.make_known_attributor(known, site)
    simp = get_simp(task['simp'])
    bug = task.get('bug')
    info = {}

    def fn(eng):
        adapt.reset()
        _counter[0] = 0

        def cf(i, size):
            return eng.fresh_int('c%d_%d' % (i, size), 0, (1 << size) - 1)
        e = build_template(task, cf)
        info['e'] = e
        try:
            with time_limit(task.get('call_limit_s', 40)):
                r = simp(e)
        except NonTermination as ex:
            eng.fail('terminates', dict(exc=str(ex)))
            return
        except Exception as ex:
            import traceback
            eng.fail('no-exception', dict(exc="%s: %s" % (type(ex).__name__, ex),
                                          tb=traceback.format_exc()[-600:]))
            return
        if r.size != e.size:
            eng.fail('same-size', dict(got=r.size, want=e.size))
            return
        if mode == 'meaning':
            ref = Ref(bugs=frozenset([bug]) if bug else frozenset())
            te = ref.tr(e)
            divs = ref.nonzero_divisors()
            if bug == 'drop_result_bit':
                # twin: pretend the oracle expects bit 0 flipped -> must be violated
                tr_ = ref.tr(r) ^ 1
            else:
                tr_ = ref.tr(r)
            cond = te == tr_
            if divs:
                cond = z3.Implies(z3.And(*divs), cond)
            m = eng.oblige('meaning', cond)
            if m is not None and m != 'inconclusive':
                rec = eng.path_out[-1]
                rec['e'] = adapt.expr_to_src(adapt.concretize_expr(e, lambda s: _mv(m, s)))
                rec['r_sym'] = str(adapt.concretize_expr(r, lambda s: _mv(m, s)))[:300]
                rec['ids'] = {k[0]: m.eval(v, model_completion=True).as_long() for k, v in ref.ids.items()}
                rec['mem'] = _mem_bytes(m, ref, e, r, rec['ids'])
        else:
            adapt.reset()
            _counter[0] = 0
            try:
                with time_limit(task.get('call_limit_s', 40)):
                    r2 = simp(r)
            except NonTermination as ex:
                eng.fail('terminates-2', dict(exc=str(ex)))
                return
            except Exception as ex:
                eng.fail('no-exception-2', dict(exc="%s: %s" % (type(ex).__name__, ex)))
                return
            cond = adapt.structeq(r2, r)
            if bug == 'fix_always_differs':
                cond = z3.BoolVal(False)
            m = eng.oblige('fixpoint', cond)
            if m is not None and m != 'inconclusive':
                rec = eng.path_out[-1]
                rec['e'] = adapt.expr_to_src(adapt.concretize_expr(e, lambda s: _mv(m, s)))
                rec['r1'] = str(adapt.concretize_expr(r, lambda s: _mv(m, s)))[:300]
                rec['r2'] = str(adapt.concretize_expr(r2, lambda s: _mv(m, s)))[:300]
                return
            # context consistency: inside one call, under an opaque parent, e and its
            # children-simplified form R must both come out as r (memoisation must not leak
            # half-rewritten forms), and that output must be stable too
            from miasm.expression.expression import ExprOp
            try:
                with time_limit(task.get('call_limit_s', 40)):
                    adapt.reset()
                    R = rebuild_children_simplified(e, simp)
                    adapt.reset()
                    t = simp(ExprOp('verif_opaque', e, R))
                    t2 = simp(t)
            except NonTermination as ex:
                eng.fail('terminates-ctx', dict(exc=str(ex)))
                return
            except Exception as ex:
                eng.fail('no-exception-ctx', dict(exc="%s: %s" % (type(ex).__name__, ex)))
                return
            eng.oblige('context-consistent', z3.And(adapt.structeq(t, ExprOp('verif_opaque', r, r)),
                                                    adapt.structeq(t2, t)))

    def _mv(m, s):
        return m.eval(s.z, model_completion=True).as_signed_long()

    recs = eng.explore(fn)
    # exception / failure records lack the concrete expression: add it from the inputs
    common.absorb_engine(res, eng, recs, site)
    for v in res['violations']:
        v['task_desc'] = {k: task[k] for k in ('set', 'idx', 'name', 'n', 'simp') if k in task}
        v['mode'] = mode
    res['nontrivial'] = sum(1 for r in recs if r['status'] == 'ok' and r['obligations'])
    if 'e' in info:
        res['samples'] = ["%s [%s, n=%d]: %d paths" % (task.get('name'), task['simp'], task['n'],
                                                        eng.stats['paths'])]
    return res


def _mem_bytes(m, ref, e, r, ids):
    """Concrete bytes of the model's memory at every address the two expressions read."""
    import z3
    from vf.ceval import ceval, Undefined
    mem = {}

    def rd(addr):
        if addr not in mem:
            mem[addr] = m.eval(ref.mem(z3.BitVecVal(addr, 64)), model_completion=True).as_long()
        return mem[addr]
    for x in (e, r):
        try:
            xc = adapt.concretize_expr(x, lambda s: m.eval(s.z, model_completion=True).as_signed_long())
            ceval(xc, ids, rd)
        except Exception:
            pass
    return {str(k): v for k, v in mem.items()}


def rebuild_children_simplified(e, simp):
    from miasm.expression.expression import ExprOp, ExprCompose, ExprCond, ExprSlice, ExprMem
    if e.is_op():
        return ExprOp(e.op, *[simp(a) for a in e.args])
    if e.is_compose():
        return ExprCompose(*[simp(a) for a in e.args])
    if e.is_cond():
        return ExprCond(simp(e.cond), simp(e.src1), simp(e.src2))
    if e.is_slice():
        return ExprSlice(simp(e.arg), e.start, e.stop)
    if e.is_mem():
        return ExprMem(simp(e.ptr), e.size)
    return e


# ---------------------------------------------------------------------------------------------
def rebuild_concrete(w):
    """Rebuild the concrete expression of a witness on unpatched miasm."""
    task = w['task_desc']
    inp = w.get('inputs', {})

    def cf(i, size):
        return inp.get('c%d_%d' % (i, size), 0)
    return build_template(task, cf)


def replay(w, mode):
    import miasm.expression.simplifications as S
    from vf.ceval import ceval, Undefined
    e = rebuild_concrete(w)
    simp = getattr(S, w['task_desc']['simp'])
    ob = w.get('ob')
    try:
        with time_limit(20):
            r = simp(e)
    except NonTermination as ex:
        return True, "%s(%s) does not terminate: %s" % (w['task_desc']['simp'], e, ex)
    except RecursionError as ex:
        return True, "%s(%s) does not terminate: %r" % (w['task_desc']['simp'], e, ex)
    except Exception as ex:
        return True, "%s(%s) raised %s: %s" % (w['task_desc']['simp'], e, type(ex).__name__, ex)
    if ob in ('no-exception', 'terminates') or (ob in ('no-exception-2', 'terminates-2') and mode == 'meaning'):
        return False, "no exception / terminates on concrete run: %s -> %s" % (e, r)
    if r.size != e.size:
        return True, "size changed: %s (%d) -> %s (%d)" % (e, e.size, r, r.size)
    if mode == 'fixpoint':
        try:
            with time_limit(20):
                r2 = simp(r)
        except Exception as ex:
            return True, "second simplification of %s raised/did not terminate: %r" % (r, ex)
        if r2 != r:
            return True, "%s -> %s -> %s (not a fixed point)" % (e, r, r2)
        from miasm.expression.expression import ExprOp
        for s_ in (S.expr_simp, S.expr_simp_explicit, S.expr_simp_high_to_explicit):
            s_.cache.clear()
        R = rebuild_children_simplified(e, simp)
        for s_ in (S.expr_simp, S.expr_simp_explicit, S.expr_simp_high_to_explicit):
            s_.cache.clear()
        t = simp(ExprOp('verif_opaque', e, R))
        if t != ExprOp('verif_opaque', r, r):
            return True, "in one call %s(verif_opaque(e, R)) = %s but %s(e) = %s (e = %s, R = e with simplified children)" % (
                w['task_desc']['simp'], t, w['task_desc']['simp'], r, e)
        if simp(t) != t:
            return True, "%s is an output but simplifies again to %s" % (t, simp(t))
        return False, "%s -> %s is stable" % (e, r)
    # meaning: model valuation first, then a deterministic search over valuations
    ids = dict(w.get('ids', {}))
    memd = {int(k): v for k, v in w.get('mem', {}).items()}
    names = set()

    def cb(x):
        if x.is_id():
            names.add((x.name, x.size))
        return x
    e.visit(cb)
    r.visit(cb)
    rnd = random.Random(12345)
    trials = [(ids, memd)]
    for i in range(3000):
        vals = {}
        for (nm, sz) in names:
            c = rnd.random()
            if c < 0.3:
                vals[nm] = rnd.choice([0, 1, (1 << sz) - 1, 1 << (sz - 1), (1 << (sz - 1)) - 1])
            else:
                vals[nm] = rnd.getrandbits(sz)
        seed = rnd.getrandbits(32)
        trials.append((vals, seed))
    for vals, mm in trials:
        full = {nm: vals.get(nm, 0) for (nm, sz) in names}
        if isinstance(mm, dict):
            rd = lambda a, mm=mm: mm.get(a, 0)
        else:
            rd = lambda a, mm=mm: (a * 2654435761 + mm) >> 7 & 0xff
        try:
            ve = ceval(e, full, rd)
        except Undefined:
            continue
        try:
            vr = ceval(r, full, rd)
        except Undefined:
            return True, "%s -> %s : result divides by zero where the original is defined (%r)" % (e, r, full)
        if ve != vr:
            return True, "%s -> %s ; under %r original=0x%x simplified=0x%x" % (e, r, full, ve, vr)
    return False, "%s -> %s : no distinguishing valuation found" % (e, r)
