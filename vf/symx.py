"""symx -- symbolic execution of real Python code by proxy values over z3.

A `SymInt` stands for a Python int: it carries a z3 bit-vector term of an exact, growing signed
width together with a conservative [lo, hi] range, so that no operation ever wraps (Python ints are
unbounded).  A comparison gives a `SymBool`; taking its truth value asks the `Engine` to branch.  The
harness function is re-executed from scratch for every path (DFS over the decision tree); decisions
are recorded so that a replayed prefix is deterministic.  Where Python needs a concrete int the proxy
concretises by solver-driven exhaustive enumeration (never a sample).

Outcomes of a proof obligation: discharged (unsat), violated (model), inconclusive (unknown/caps).
"""
import builtins
import time

import z3


class Inconclusive(BaseException):
    """Raised when a cap / solver limit is hit: the path is neither success nor violation."""


class PathAbort(BaseException):
    """The current path is infeasible (only possible after an `assume`)."""


CAP_SHIFT = 600
MAXW = 1200
CAP_CONCRETIZE = 4096   # max values enumerated for one symbolic int on one path prefix


def bits_for(lo, hi):
    """Signed width holding every value of [lo, hi]."""
    w = max(lo.bit_length() if lo >= 0 else (~lo).bit_length(),
            hi.bit_length() if hi >= 0 else (~hi).bit_length()) + 1
    return w


class Engine(object):
    cur = None

    def __init__(self, timeout_ms=10000, max_paths=100000):
        self.solver = z3.Solver()
        self.timeout_ms = timeout_ms
        self.solver.set('timeout', timeout_ms)
        self.max_paths = max_paths
        self.prefix = []
        self.decisions = []
        self.todo = []
        self.stats = dict(paths=0, queries=0, solver_s=0.0, forks=0, concretized=0,
                          obligations=0, discharged=0, violated=0, inconclusive=0, aborted=0)
        self.inputs = {}          # name -> SymInt of the current path
        self.path_out = None      # per-path record filled by oblige()
        self.decided = {}         # AST id -> (ast, bool) decided on the current path
        self.models = []          # models known to satisfy the current path condition
        self.deadline = None      # wall-clock deadline of the whole exploration

    def _add(self, c):
        self.solver.add(c)
        if self.models:
            keep = []
            for m in self.models:
                try:
                    if z3.is_true(m.eval(c, model_completion=True)):
                        keep.append(m)
                except z3.Z3Exception:
                    pass
            self.models = keep

    def _witness(self, cond):
        """(has_true_witness, has_false_witness) among cached models."""
        wt = wf = False
        for m in self.models:
            try:
                v = m.eval(cond, model_completion=True)
            except z3.Z3Exception:
                continue
            if z3.is_true(v):
                wt = True
            elif z3.is_false(v):
                wf = True
            if wt and wf:
                break
        return wt, wf

    # ---- inputs -------------------------------------------------------------------------------
    def fresh_int(self, name, lo, hi):
        """Symbolic Python int in [lo, hi] (inclusive)."""
        w = bits_for(lo, hi)
        v = z3.BitVec(name, w)
        self._add(z3.And(z3.BitVecVal(lo, w) <= v, v <= z3.BitVecVal(hi, w)))
        s = SymInt(v, w, lo, hi)
        self.inputs[name] = s
        return s

    def fresh_bool(self, name):
        return SymBool(z3.Bool(name))

    def assume(self, cond):
        """Constrain the rest of the path (cond: SymBool / z3 Bool / bool)."""
        if isinstance(cond, SymBool):
            cond = cond.z
        if cond is True:
            return
        if cond is False:
            raise PathAbort("assume(False)")
        self._add(cond)
        if not self.models and not self.check():
            raise PathAbort("assumption infeasible")

    # ---- solver ------------------------------------------------------------------------------
    def check(self, *extra):
        t = time.time()
        if self.deadline is not None and t > self.deadline:
            raise Inconclusive("task wall-clock budget exhausted")
        r = self.solver.check(*extra)
        self.stats['queries'] += 1
        self.stats['solver_s'] += time.time() - t
        if r == z3.unknown:
            raise Inconclusive("solver unknown: %s" % self.solver.reason_unknown())
        if r == z3.sat:
            if len(self.models) >= 6:
                self.models.pop(0)
            self.models.append(self.solver.model())
        return r == z3.sat

    def check_fresh(self, *extra):
        """Final (large) queries: a fresh non-incremental solver gets z3's full preprocessing, which
        is often orders of magnitude faster than the incremental core; fall back to the incremental
        solver when it answers unknown."""
        t = time.time()
        if self.deadline is not None and t > self.deadline:
            raise Inconclusive("task wall-clock budget exhausted")
        s = z3.Solver()
        s.set('timeout', self.timeout_ms)
        s.add(self.solver.assertions())
        s.add(*extra)
        r = s.check()
        self.stats['queries'] += 1
        self.stats['solver_s'] += time.time() - t
        if r == z3.unknown:
            return self.check(*extra)
        if r == z3.sat:
            if len(self.models) >= 6:
                self.models.pop(0)
            self.models.append(s.model())
        return r == z3.sat

    def branch(self, cond):
        """cond: z3 Bool.  Returns a Python bool, forking the exploration when both are feasible."""
        cond = z3.simplify(cond)
        if z3.is_true(cond):
            return True
        if z3.is_false(cond):
            return False
        flip = False
        while z3.is_not(cond):
            cond = cond.arg(0)
            flip = not flip
        if flip:
            return not self._branch(cond)
        return self._branch(cond)

    def _branch(self, cond):
        key = cond.get_id()
        hit = self.decided.get(key)
        if hit is not None:
            return hit[1]
        val = self._branch2(cond)
        self.decided[key] = (cond, val)   # keeps the AST alive so that its id stays unique
        return val

    def _branch2(self, cond):
        i = len(self.decisions)
        if i < len(self.prefix):
            kind, _, val = self.prefix[i]
            if kind != 'br':
                raise RuntimeError("symx replay diverged (expected %s, got br)" % kind)
            self.decisions.append(self.prefix[i])
            self._add(cond if val else z3.Not(cond))
            return val
        wt, wf = self._witness(cond)
        can_t = wt or self.check(cond)
        can_f = wf or self.check(z3.Not(cond))
        if can_t and can_f:
            self.stats['forks'] += 1
            self.todo.append(self.decisions + [('br', None, False)])
            val = True
        elif can_t:
            val = True
        elif can_f:
            val = False
        else:
            raise PathAbort("infeasible path")
        self.decisions.append(('br', None, val))
        self._add(cond if val else z3.Not(cond))
        return val

    def concretize(self, s):
        """Enumerate the feasible values of SymInt s by forking; each decision records its value."""
        self.stats['concretized'] += 1
        n_excluded = 0
        while True:
            i = len(self.decisions)
            if i < len(self.prefix):
                kind, v, val = self.prefix[i]
                if kind != 'val':
                    raise RuntimeError("symx replay diverged (expected %s, got val)" % kind)
                self.decisions.append(self.prefix[i])
                c = s.z == z3.BitVecVal(v, s.w)
                self._add(c if val else z3.Not(c))
                if val:
                    return v
                n_excluded += 1
                continue
            if n_excluded > CAP_CONCRETIZE:
                raise Inconclusive("concretisation cap exceeded")
            if not self.models and not self.check():
                raise PathAbort("infeasible at concretize")
            m = self.models[-1]
            v = m.eval(s.z, model_completion=True).as_signed_long()
            c = s.z == z3.BitVecVal(v, s.w)
            _, wf = self._witness(c)
            if wf or self.check(z3.Not(c)):
                self.stats['forks'] += 1
                self.todo.append(self.decisions + [('val', v, False)])
            self.decisions.append(('val', v, True))
            self._add(c)
            return v

    def choose(self, name, options):
        """Nondeterministic choice among a finite list (solver-driven enumeration)."""
        idx = self.fresh_int(name, 0, len(options) - 1)
        return options[int(idx)]

    # ---- obligations -------------------------------------------------------------------------
    def model_values(self, model):
        out = {}
        for name, s in self.inputs.items():
            out[name] = model.eval(s.z, model_completion=True).as_signed_long()
        return out

    def oblige(self, name, cond, extra=None):
        """Proof obligation pc => cond.  Records discharged / violated (with model) / inconclusive.
        Returns None if discharged, the z3 model if violated, 'inconclusive' otherwise."""
        if isinstance(cond, SymBool):
            cond = cond.z
        self.stats['obligations'] += 1
        rec = dict(name=name)
        if cond is True or (not isinstance(cond, bool) and z3.is_true(z3.simplify(cond))):
            self.stats['discharged'] += 1
            rec['status'] = 'discharged'
            self.path_out.append(rec)
            return None
        if cond is False:
            cond = z3.BoolVal(False)
        try:
            sat = (self.check if getattr(self, 'incremental_obligations', False) else self.check_fresh)(z3.Not(cond))
        except Inconclusive as e:
            self.stats['inconclusive'] += 1
            rec['status'] = 'inconclusive'
            rec['why'] = str(e)
            self.path_out.append(rec)
            return 'inconclusive'
        if not sat:
            self.stats['discharged'] += 1
            rec['status'] = 'discharged'
            self.path_out.append(rec)
            return None
        m = self.models[-1]
        self.stats['violated'] += 1
        rec['status'] = 'violated'
        rec['inputs'] = self.model_values(m)
        rec['_model'] = m
        rec['_negcond'] = z3.Not(cond)
        if extra:
            rec.update(extra)
        self.path_out.append(rec)
        return m

    def fail(self, name, extra=None):
        """Unconditional failure on this path (e.g. an exception escaped): witness = model of pc."""
        return self.oblige(name, z3.BoolVal(False), extra)

    def witness_on_path(self, rec, assignment):
        """Is the known witness (name -> int) a violating input of this very path/obligation?"""
        cs = []
        for k, v in assignment.items():
            s = self.inputs.get(k)
            if s is None:
                return False
            if not (s.lo <= v <= s.hi):
                return False
            cs.append(s.z == z3.BitVecVal(v, s.w))
        try:
            return self.check(rec['_negcond'], *cs)
        except Inconclusive:
            return False

    # ---- exploration -------------------------------------------------------------------------
    def explore(self, fn):
        """Run fn(engine) on every path.  Returns a list of per-path records:
        dict(status= ok|abort|inconclusive|exception, obligations=[...], decisions=n, ...)."""
        self.todo = [[]]
        results = []
        while self.todo:
            self.prefix = self.todo.pop(0) if getattr(self, 'fifo', False) else self.todo.pop()
            self.decisions = []
            self.inputs = {}
            self.path_out = []
            self.models = []
            self.decided = {}
            self.solver.push()
            Engine.cur = self
            rec = dict(obligations=self.path_out)
            try:
                rec['ret'] = fn(self)
                rec['status'] = 'ok'
            except PathAbort as e:
                rec['status'] = 'abort'
                rec['why'] = str(e)
                self.stats['aborted'] += 1
            except Inconclusive as e:
                rec['status'] = 'inconclusive'
                rec['why'] = str(e)
                self.stats['inconclusive'] += 1
            except z3.Z3Exception as e:
                rec['status'] = 'inconclusive'
                rec['why'] = 'z3 exception: %s' % e
                self.stats['inconclusive'] += 1
            finally:
                # known-finding attribution needs the path's solver context: done by the callback
                if getattr(self, 'on_path_end', None) is not None:
                    try:
                        self.on_path_end(self, rec)
                    except Inconclusive:
                        pass
                for o in self.path_out:
                    o.pop('_model', None)
                    o.pop('_negcond', None)
                self.solver.pop()
                Engine.cur = None
            rec['decisions'] = len(self.decisions)
            results.append(rec)
            self.stats['paths'] += 1
            if self.stats['paths'] >= self.max_paths and self.todo:
                results.append(dict(status='inconclusive', why='max_paths reached, %d prefixes left'
                                    % len(self.todo), obligations=[]))
                self.stats['inconclusive'] += 1
                break
        return results


# -------------------------------------------------------------------------------------------------

def lift(x):
    if isinstance(x, SymInt):
        return x
    if isinstance(x, SymBool):
        return x.as_int()
    if isinstance(x, bool):
        x = builtins.int(x)
    if isinstance(x, builtins.int):
        w = bits_for(x, x)
        return SymInt(z3.BitVecVal(x, w), w, x, x)
    if isinstance(x, (float, str, bytes, complex)) or x is None:
        return None
    if hasattr(x, '__index__'):
        return lift(x.__index__())
    return None


def ext(z, w, nw):
    if nw == w:
        return z
    if nw > w:
        return z3.SignExt(nw - w, z)
    return z3.Extract(nw - 1, 0, z)


class SymBool(object):
    __slots__ = ('z',)

    def __init__(self, z):
        self.z = z

    def __bool__(self):
        return Engine.cur.branch(self.z)

    def as_int(self):
        return SymInt(z3.If(self.z, z3.BitVecVal(1, 2), z3.BitVecVal(0, 2)), 2, 0, 1)

    def __int__(self):
        return builtins.int(bool(self))
    __index__ = __int__

    def __add__(self, o):
        return self.as_int() + o
    __radd__ = __add__

    def __sub__(self, o):
        return builtins.int(bool(self)) - builtins.int(o)

    def __rsub__(self, o):
        return builtins.int(o) - builtins.int(bool(self))

    def __and__(self, o):
        if isinstance(o, SymBool):
            return SymBool(z3.And(self.z, o.z))
        return bool(self) & o
    __rand__ = __and__

    def __or__(self, o):
        if isinstance(o, SymBool):
            return SymBool(z3.Or(self.z, o.z))
        return bool(self) | o
    __ror__ = __or__

    def __xor__(self, o):
        if isinstance(o, SymBool):
            return SymBool(z3.Xor(self.z, o.z))
        return bool(self) ^ o
    __rxor__ = __xor__

    def __eq__(self, o):
        return bool(self) == o

    def __ne__(self, o):
        return bool(self) != o

    def __hash__(self):
        return hash(bool(self))

    def __repr__(self):
        return "SB<%s>" % self.z


class SymFloat(object):
    """Result of int / int (true division).  Bitwise use raises TypeError exactly as a float would;
    anything else is outside the model."""

    def __init__(self, num, den):
        self.num, self.den = num, den

    def _te(self, o, *a):
        raise TypeError("unsupported operand type(s): 'float' and 'int'")
    __and__ = __rand__ = __or__ = __ror__ = __xor__ = __rxor__ = _te
    __lshift__ = __rlshift__ = __rshift__ = __rrshift__ = __invert__ = _te

    def _inc(self, *a):
        raise Inconclusive("float arithmetic is outside the model")
    __add__ = __radd__ = __sub__ = __rsub__ = __mul__ = __rmul__ = _inc
    __int__ = __float__ = __bool__ = __lt__ = __le__ = __gt__ = __ge__ = _inc
    __mod__ = __floordiv__ = __truediv__ = _inc


class SymInt(object):
    __slots__ = ('z', 'w', 'lo', 'hi')

    def __init__(self, z, w, lo, hi):
        need = bits_for(lo, hi)
        if need < w:
            z = z3.Extract(need - 1, 0, z)
            w = need
        if w > MAXW:
            raise Inconclusive("width %d > MAXW" % w)
        self.z = z3.simplify(z) if w <= 256 else z
        self.w = w
        if lo != hi and z3.is_bv_value(self.z):
            lo = hi = self.z.as_signed_long()
        self.lo = lo
        self.hi = hi

    def is_concrete(self):
        return self.lo == self.hi

    # conversions
    def __int__(self):
        if self.lo == self.hi:
            return self.lo
        return Engine.cur.concretize(self)
    __index__ = __int__
    __trunc__ = __int__

    def __float__(self):
        return float(builtins.int(self))

    def __bool__(self):
        if self.lo == self.hi:
            return self.lo != 0
        return Engine.cur.branch(self.z != 0)

    def __hash__(self):
        return hash(builtins.int(self))

    def __repr__(self):
        if self.lo == self.hi:
            return "%d" % self.lo
        return "S<%s:%d>" % (self.z.sexpr()[:60], self.w)
    __str__ = __repr__

    def __format__(self, spec):
        return format(builtins.int(self), spec)

    def _bin(self, o, f, bounds):
        o = lift(o)
        if o is None:
            return NotImplemented
        lo, hi = bounds(self.lo, self.hi, o.lo, o.hi)
        w = max(bits_for(lo, hi), self.w, o.w)
        z = f(ext(self.z, self.w, w), ext(o.z, o.w, w))
        return SymInt(z, w, lo, hi)

    def __add__(self, o):
        return self._bin(o, lambda a, b: a + b, lambda a, b, c, d: (a + c, b + d))
    __radd__ = __add__

    def __sub__(self, o):
        return self._bin(o, lambda a, b: a - b, lambda a, b, c, d: (a - d, b - c))

    def __rsub__(self, o):
        o = lift(o)
        return NotImplemented if o is None else o.__sub__(self)

    def __neg__(self):
        return lift(0) - self

    def __pos__(self):
        return self

    def __abs__(self):
        m = max(abs(self.lo), abs(self.hi))
        w = max(self.w, bits_for(0, m))
        z = ext(self.z, self.w, w)
        lo = 0 if self.lo <= 0 <= self.hi else min(abs(self.lo), abs(self.hi))
        return SymInt(z3.If(z < 0, -z, z), w, lo, m)

    def __mul__(self, o):
        if isinstance(o, (bytes, str, list, tuple)):
            return o * builtins.int(self)

        def b(a, b_, c, d):
            ps = [a * c, a * d, b_ * c, b_ * d]
            return min(ps), max(ps)
        return self._bin(o, lambda a, b: a * b, b)

    def __rmul__(self, o):
        if isinstance(o, (bytes, str, list, tuple)):
            hook = _seq_repeat_hook[0]
            if hook is not None:
                return hook(o, self)
            return o * builtins.int(self)
        return self.__mul__(o)

    def __invert__(self):
        return SymInt(~self.z, self.w, ~self.hi, ~self.lo)

    @staticmethod
    def _bitbounds(a, b, c, d):
        if a >= 0 and c >= 0:
            n = max(b.bit_length(), d.bit_length())
            return 0, (1 << n) - 1
        n = max(bits_for(a, b), bits_for(c, d))
        return -(1 << (n - 1)), (1 << (n - 1)) - 1

    def __and__(self, o):
        def b(a, b_, c, d):
            if a >= 0 and c >= 0:
                return 0, min(b_, d)
            if a >= 0:
                return 0, b_
            if c >= 0:
                return 0, d
            return SymInt._bitbounds(a, b_, c, d)
        return self._bin(o, lambda a, b: a & b, b)
    __rand__ = __and__

    def __or__(self, o):
        return self._bin(o, lambda a, b: a | b, SymInt._bitbounds)
    __ror__ = __or__

    def __xor__(self, o):
        return self._bin(o, lambda a, b: a ^ b, SymInt._bitbounds)
    __rxor__ = __xor__

    def _shift_amount(self, o):
        o = lift(o)
        if o is None:
            return None
        if o.lo < 0:
            if Engine.cur.branch(o.z < 0):
                raise ValueError("negative shift count")
            o = SymInt(o.z, o.w, 0, o.hi)
        return o

    def __lshift__(self, o):
        o = self._shift_amount(o)
        if o is None:
            return NotImplemented
        if o.hi > CAP_SHIFT:
            if Engine.cur.branch(z3.BitVecVal(CAP_SHIFT, o.w) < o.z
                                 if bits_for(CAP_SHIFT, CAP_SHIFT) <= o.w else z3.BoolVal(False)):
                raise Inconclusive("shift amount above cap")
            o = SymInt(o.z, o.w, o.lo, CAP_SHIFT)
        lo = self.lo << (o.hi if self.lo < 0 else o.lo)
        hi = self.hi << (o.hi if self.hi > 0 else o.lo)
        w = max(bits_for(lo, hi), self.w, o.w)
        return SymInt(ext(self.z, self.w, w) << ext(o.z, o.w, w), w, lo, hi)

    def __rlshift__(self, o):
        o = lift(o)
        return NotImplemented if o is None else o.__lshift__(self)

    def __rshift__(self, o):
        o = self._shift_amount(o)
        if o is None:
            return NotImplemented
        w = max(self.w, o.w)
        big = 1 << 20
        lo = self.lo >> (o.lo if self.lo < 0 else min(o.hi, big))
        hi = self.hi >> (o.lo if self.hi > 0 else min(o.hi, big))
        return SymInt(ext(self.z, self.w, w) >> ext(o.z, o.w, w), w, lo, hi)

    def __rrshift__(self, o):
        o = lift(o)
        return NotImplemented if o is None else o.__rshift__(self)

    def _divmod(self, o):
        o = lift(o)
        if o is None:
            return None
        if o.lo <= 0 <= o.hi:
            if Engine.cur.branch(o.z == 0):
                raise ZeroDivisionError("integer division or modulo by zero")
        # power-of-two divisor: mask / shift (keeps terms small)
        if o.is_concrete() and o.lo > 0 and (o.lo & (o.lo - 1)) == 0:
            k = o.lo.bit_length() - 1
            q = self >> k
            r = self & (o.lo - 1)
            return q, r
        m = max(abs(self.lo), abs(self.hi))
        w = max(self.w, o.w, bits_for(-m - 1, m + 1)) + 1
        a = ext(self.z, self.w, w)
        b = ext(o.z, o.w, w)
        if self.lo >= 0 and o.lo > 0:
            q = z3.UDiv(a, b)
            r = z3.URem(a, b)
            return SymInt(q, w, 0, self.hi // o.lo), SymInt(r, w, 0, min(o.hi - 1, self.hi))
        q = a / b  # bvsdiv truncates
        r = z3.SRem(a, b)
        adj = z3.And(r != 0, (r < 0) != (b < 0))
        qf = z3.If(adj, q - 1, q)
        rf = z3.If(adj, r + b, r)
        mo = max(abs(o.lo), abs(o.hi))
        return SymInt(qf, w, -m - 1, m + 1), SymInt(rf, w, -mo, mo)

    def __floordiv__(self, o):
        r = self._divmod(o)
        return NotImplemented if r is None else r[0]

    def __rfloordiv__(self, o):
        o = lift(o)
        return NotImplemented if o is None else o.__floordiv__(self)

    def __mod__(self, o):
        r = self._divmod(o)
        return NotImplemented if r is None else r[1]

    def __rmod__(self, o):
        if isinstance(o, (str, bytes)):
            return o % builtins.int(self)
        o = lift(o)
        return NotImplemented if o is None else o.__mod__(self)

    def __divmod__(self, o):
        r = self._divmod(o)
        return NotImplemented if r is None else r

    def __rdivmod__(self, o):
        o = lift(o)
        return NotImplemented if o is None else o.__divmod__(self)

    def __truediv__(self, o):
        o2 = lift(o)
        if o2 is None:
            return NotImplemented
        if o2.lo <= 0 <= o2.hi:
            if Engine.cur.branch(o2.z == 0):
                raise ZeroDivisionError("division by zero")
        return SymFloat(self, o2)

    def __rtruediv__(self, o):
        o = lift(o)
        return NotImplemented if o is None else o.__truediv__(self)

    def __pow__(self, o, mod=None):
        if mod is not None:
            raise Inconclusive("3-arg pow")
        o = lift(o)
        if o is None:
            return NotImplemented
        e = builtins.int(o)
        if self.is_concrete():
            return lift(self.lo ** e)
        if e < 0:
            raise Inconclusive("negative pow")
        if e > 64:
            raise Inconclusive("pow exponent above cap")
        r = lift(1)
        for _ in range(e):
            r = r * self
        return r

    def __rpow__(self, o):
        base = lift(o)
        if base is None:
            return NotImplemented
        if base.is_concrete() and base.lo == 2:
            return lift(1) << self
        return base.__pow__(self)

    def _cmp(self, o, f):
        o = lift(o)
        if o is None:
            return NotImplemented
        w = max(self.w, o.w)
        return SymBool(f(ext(self.z, self.w, w), ext(o.z, o.w, w)))

    def __lt__(self, o):
        if lift(o) is not None and (self.hi < lift(o).lo):
            return True
        return self._cmp(o, lambda a, b: a < b)

    def __le__(self, o):
        return self._cmp(o, lambda a, b: a <= b)

    def __gt__(self, o):
        return self._cmp(o, lambda a, b: a > b)

    def __ge__(self, o):
        return self._cmp(o, lambda a, b: a >= b)

    def __eq__(self, o):
        r = self._cmp(o, lambda a, b: a == b)
        return False if r is NotImplemented else r

    def __ne__(self, o):
        r = self._cmp(o, lambda a, b: a != b)
        return True if r is NotImplemented else r

    def bit_length(self):
        n = 0
        a = abs(self)
        while a >> n:
            n += 1
        return n


_seq_repeat_hook = [None]


class _IntMeta(type):
    def __instancecheck__(cls, x):
        return isinstance(x, (builtins.int, SymInt))


class sym_int(builtins.int, metaclass=_IntMeta):
    """Drop-in for the name `int` in the module globals of code under symbolic execution:
    int(SymInt) passes through, isinstance(SymInt, int) is True, otherwise the builtin."""

    def __new__(cls, x=0, *a):
        if isinstance(x, SymInt):
            return x
        if isinstance(x, SymBool):
            return x.as_int()
        if not a and not isinstance(x, (str, bytes, float, builtins.int)) and hasattr(x, '__int__'):
            r = x.__int__()
            if isinstance(r, SymInt):
                return r
            return builtins.int(r)
        return builtins.int(x, *a)


def conc(x):
    """Concrete python int of x (SymInt must be concrete or gets concretised)."""
    return builtins.int(x)
