"""llsym -- a small path-forking symbolic interpreter for the textual LLVM IR clang-14 emits for miasm's C runtime.

Scope (what C04 needs): integer instructions, icmp/select/phi/br/switch, casts, calls into defined functions,
the llvm.* bit intrinsics, loads from constant global arrays (symbolic index), and -- for the big-number code --
alloca/load/store/getelementptr/memcpy/memset on a byte memory whose ADDRESSES are concrete (contents symbolic).

Values are (bit-vector, poison) pairs: LLVM's deferred undefined behaviour (shift by >= width, nsw/nuw overflow,
exact) yields poison, `select` propagates only the chosen arm, and poison reaching a branch, a divisor, a memory
address, an external call or the function result is reported as undefined behaviour.  Immediate UB (division by
zero, INT_MIN / -1) is reported at the instruction.  Branching on symbolic conditions is delegated to a symx Engine
(fork + re-execution), so loops are unrolled by path execution, bounded by `max_steps`.
"""
import re

import z3


class Unsupported(Exception):
    pass


class Abort(Exception):
    """the C code called exit()/abort() on this path"""


# ------------------------------------------------------------------------------------------------ parsing

_TYPE_RE = re.compile(r'\s*(i\d+|void|double|float|half|x86_fp80|ptr|label|metadata|%[\w.$"-]+|\[|\{|<)')


def parse_type(s, pos=0):
    """-> (type, newpos).  type: ('i', n) | ('void',) | ('f', name) | ('named', name) | ('arr', n, elt) | ('struct', [..]) |
    ('ptr', pointee)"""
    m = _TYPE_RE.match(s, pos)
    if not m:
        raise Unsupported("type at %r" % s[pos:pos + 40])
    tok = m.group(1)
    pos = m.end()
    if tok.startswith('i') and tok[1:].isdigit():
        t = ('i', int(tok[1:]))
    elif tok == 'void':
        t = ('void',)
    elif tok in ('double', 'float', 'half', 'x86_fp80'):
        t = ('f', tok)
    elif tok in ('label', 'metadata'):
        t = (tok,)
    elif tok == 'ptr':
        t = ('ptr', None)
    elif tok.startswith('%'):
        t = ('named', tok[1:])
    elif tok == '[':
        m2 = re.compile(r'\s*(\d+)\s+x\s+').match(s, pos)
        n = int(m2.group(1))
        elt, pos = parse_type(s, m2.end())
        m3 = re.compile(r'\s*\]').match(s, pos)
        pos = m3.end()
        t = ('arr', n, elt)
    elif tok == '<':
        m2 = re.compile(r'\s*(\d+)\s+x\s+').match(s, pos)
        if not m2:
            raise Unsupported("packed struct / vector")
        raise Unsupported("vector type")
    elif tok == '{':
        elts = []
        while True:
            m3 = re.compile(r'\s*\}').match(s, pos)
            if m3:
                pos = m3.end()
                break
            e, pos = parse_type(s, pos)
            elts.append(e)
            m4 = re.compile(r'\s*,').match(s, pos)
            if m4:
                pos = m4.end()
        t = ('struct', elts)
    # function type suffix: ret (args...)
    while True:
        m5 = re.compile(r'\s*\(').match(s, pos)
        if m5 and t[0] != 'label':
            depth = 0
            i = m5.end() - 1
            while True:
                if s[i] == '(':
                    depth += 1
                elif s[i] == ')':
                    depth -= 1
                    if depth == 0:
                        break
                i += 1
            pos = i + 1
            t = ('fn', t)
            continue
        m6 = re.compile(r'\s*\*').match(s, pos)
        if m6:
            pos = m6.end()
            t = ('ptr', t)
            continue
        break
    return t, pos


def split_top(s, sep=','):
    out = []
    depth = 0
    cur = []
    inq = False
    for ch in s:
        if ch == '"':
            inq = not inq
        if not inq:
            if ch in '([{<':
                depth += 1
            elif ch in ')]}>':
                depth -= 1
            elif ch == sep and depth == 0:
                out.append(''.join(cur).strip())
                cur = []
                continue
        cur.append(ch)
    if ''.join(cur).strip():
        out.append(''.join(cur).strip())
    return out


PARAM_ATTRS = set("noundef zeroext signext nocapture readonly writeonly nonnull noalias returned nofree immarg inreg "
                  "readnone".split())


def strip_attrs(s):
    toks = s.split()
    out = []
    i = 0
    while i < len(toks):
        t = toks[i]
        if t in PARAM_ATTRS:
            i += 1
            continue
        if re.match(r'(align|dereferenceable|dereferenceable_or_null)\(?\d*\)?$', t):
            if t == 'align' and i + 1 < len(toks) and toks[i + 1].isdigit():
                i += 2
            else:
                i += 1
            continue
        if re.match(r'(byval|sret|byref|inalloca|preallocated)\(', t):
            # keep as marker
            out.append('@@' + t)
            i += 1
            continue
        out.append(t)
        i += 1
    return ' '.join(out)


class Func(object):
    def __init__(self, name, ret, params, blocks, order):
        self.name, self.ret, self.params, self.blocks, self.order = name, ret, params, blocks, order


class Module(object):
    def __init__(self, text):
        self.globals = {}      # name -> dict(type=, init=bytes|list|None, const=bool)
        self.funcs = {}
        self.decls = set()
        self.named_types = {}
        self._parse(text)

    def _parse(self, text):
        lines = text.split('\n')
        i = 0
        while i < len(lines):
            ln = lines[i]
            if ln.startswith('%') and ' = type ' in ln:
                name, rest = ln.split(' = type ', 1)
                if rest.strip() == 'opaque':
                    self.named_types[name[1:]] = ('opaque',)
                else:
                    try:
                        self.named_types[name[1:]] = parse_type(rest)[0]
                    except Unsupported:
                        self.named_types[name[1:]] = ('opaque',)
            elif ln.startswith('@'):
                self._parse_global(ln)
            elif ln.startswith('declare'):
                m = re.search(r'@([\w.$]+)\s*\(', ln)
                if m:
                    self.decls.add(m.group(1))
            elif ln.startswith('define'):
                j = i
                body = []
                while not lines[j].startswith('}'):
                    body.append(lines[j])
                    j += 1
                self._parse_func(body)
                i = j
            i += 1

    def _parse_global(self, ln):
        m = re.match(r'@([\w.$]+)\s*=\s*(.*)$', ln)
        name, rest = m.group(1), m.group(2)
        toks = rest.split()
        k = 0
        const = False
        external = False
        while k < len(toks) and toks[k] not in ('global', 'constant'):
            if toks[k] == 'external':
                external = True
            k += 1
        if k == len(toks):
            return
        const = toks[k] == 'constant'
        rest2 = rest.split(toks[k], 1)[1]
        try:
            ty, pos = parse_type(rest2)
        except Unsupported:
            self.globals[name] = dict(type=None, init=None, const=const)
            return
        init_txt = rest2[pos:].strip()
        init_txt = re.sub(r',\s*(align|section|comdat|!).*$', '', init_txt)
        init = None
        if not external:
            try:
                init = self._const_bytes(ty, init_txt)
            except Unsupported:
                init = None
        self.globals[name] = dict(type=ty, init=init, const=const)

    def sizeof(self, ty):
        k = ty[0]
        if k == 'i':
            return (ty[1] + 7) // 8
        if k == 'ptr':
            return 8
        if k == 'arr':
            return ty[1] * self.sizeof(ty[2])
        if k == 'f':
            return {'double': 8, 'float': 4}.get(ty[1], 16)
        if k == 'named':
            return self.sizeof(self.named_types[ty[1]])
        if k == 'struct':
            off = 0
            mx = 1
            for e in ty[1]:
                a = self.alignof(e)
                mx = max(mx, a)
                off = (off + a - 1) // a * a
                off += self.sizeof(e)
            return (off + mx - 1) // mx * mx
        raise Unsupported("sizeof %r" % (ty,))

    def alignof(self, ty):
        k = ty[0]
        if k == 'i':
            return min(8, max(1, (ty[1] + 7) // 8))
        if k == 'ptr':
            return 8
        if k == 'arr':
            return self.alignof(ty[2])
        if k == 'f':
            return {'double': 8, 'float': 4}.get(ty[1], 16)
        if k == 'named':
            return self.alignof(self.named_types[ty[1]])
        if k == 'struct':
            return max([self.alignof(e) for e in ty[1]] or [1])
        raise Unsupported("alignof %r" % (ty,))

    def field_offset(self, ty, idx):
        if ty[0] == 'named':
            ty = self.named_types[ty[1]]
        off = 0
        for n, e in enumerate(ty[1]):
            a = self.alignof(e)
            off = (off + a - 1) // a * a
            if n == idx:
                return off, e
            off += self.sizeof(e)
        raise Unsupported("field %d of %r" % (idx, ty))

    def _const_bytes(self, ty, txt):
        """constant initialiser -> list of ints (bytes)"""
        txt = txt.strip()
        if txt == 'zeroinitializer':
            return [0] * self.sizeof(ty)
        if ty[0] == 'i':
            v = {'true': 1, 'false': 0}.get(txt)
            if v is None:
                v = int(txt)
            n = self.sizeof(ty)
            v &= (1 << (8 * n)) - 1
            return [(v >> (8 * k)) & 0xff for k in range(n)]
        if ty[0] == 'arr':
            if txt.startswith('c"'):
                s = txt[2:txt.rindex('"')]
                out = []
                k = 0
                while k < len(s):
                    if s[k] == '\\' and s[k + 1] == '\\':
                        out.append(0x5c)
                        k += 2
                    elif s[k] == '\\':
                        out.append(int(s[k + 1:k + 3], 16))
                        k += 3
                    else:
                        out.append(ord(s[k]))
                        k += 1
                return out
            if txt.startswith('['):
                inner = txt[1:txt.rindex(']')]
                out = []
                for part in split_top(inner):
                    t2, p2 = parse_type(part)
                    out += self._const_bytes(t2, part[p2:])
                return out
        raise Unsupported("initialiser %r" % txt[:40])

    def _parse_func(self, body):
        head = body[0]
        m = re.match(r'define\s+(.*?)@([\w.$]+)\s*\((.*)\)[^()]*\{\s*$', head)
        if not m:
            raise Unsupported("function header %r" % head)
        pre, name, params_txt = m.group(1), m.group(2), m.group(3)
        pre_toks = [t for t in strip_attrs(pre).split() if t not in (
            'dso_local', 'internal', 'private', 'hidden', 'linkonce_odr', 'weak', 'available_externally', 'fastcc', 'ccc',
            'unnamed_addr', 'local_unnamed_addr', 'noalias')]
        try:
            ret = parse_type(' '.join(pre_toks))[0]
        except Unsupported:
            ret = ('unsupported',)
        params = []
        for p in split_top(params_txt):
            if p == '...':
                continue
            p2 = strip_attrs(p)
            try:
                ty, pos = parse_type(p2)
            except Unsupported:
                ty, pos = ('unsupported',), 0
            rest = p2[pos:].split()
            pname = [t for t in rest if t.startswith('%')]
            marks = [t for t in rest if t.startswith('@@')]
            params.append((ty, pname[0][1:] if pname else None, marks))
        blocks = {}
        order = []
        cur = None
        k = 1
        while k < len(body):
            ln = body[k]
            k += 1
            if not ln.strip() or ln.lstrip().startswith(';'):
                continue
            m2 = re.match(r'^([\w.$-]+):', ln)
            if m2 and not ln.startswith(' '):
                cur = m2.group(1)
                blocks[cur] = []
                order.append(cur)
                continue
            if cur is None:
                cur = str(len(params))
                blocks[cur] = []
                order.append(cur)
            txt = ln.strip()
            if txt.startswith('switch') or ' switch ' in txt:
                while ']' not in txt:
                    txt += ' ' + body[k].strip()
                    k += 1
            blocks[cur].append(txt)
        self.funcs[name] = Func(name, ret, params, blocks, order)


# ------------------------------------------------------------------------------------------------ values

class Val(object):
    """integer SSA value: z3 bit-vector + poison flag (z3 Bool)"""
    __slots__ = ('bv', 'poison')

    def __init__(self, bv, poison=None):
        self.bv = bv
        self.poison = poison if poison is not None else z3.BoolVal(False)


class Ptr(object):
    """pointer: named region + concrete-or-symbolic byte offset"""
    __slots__ = ('region', 'off', 'poison')

    def __init__(self, region, off=0, poison=None):
        self.region, self.off = region, off
        self.poison = poison if poison is not None else z3.BoolVal(False)


_ZERO8 = z3.BitVecVal(0, 8)


class LazyBytes(list):
    """uninitialised memory: every byte is an arbitrary value, created when it is first looked at"""

    def __init__(self, name, n):
        list.__init__(self, [None] * n)
        self.name = name

    def _mat(self, k):
        v = list.__getitem__(self, k)
        if v is None:
            v = z3.BitVec('%s_b%d' % (self.name, k), 8)
            list.__setitem__(self, k, v)
        return v

    def __getitem__(self, k):
        if isinstance(k, slice):
            return [self._mat(i) for i in range(*k.indices(len(self)))]
        if k < 0:
            k += len(self)
        return self._mat(k)

    def __iter__(self):
        return (self._mat(i) for i in range(len(self)))


class PtrCell(object):
    """one byte of a pointer stored in byte memory (pointers are not given numeric values)"""
    __slots__ = ('ptr', 'k')

    def __init__(self, ptr, k):
        self.ptr, self.k = ptr, k


def _or(*ps):
    ps = [p for p in ps if not z3.is_false(p)]
    if not ps:
        return z3.BoolVal(False)
    if len(ps) == 1:
        return ps[0]
    return z3.Or(*ps)


STDOUT_WRITERS = {'printf', 'puts', 'putchar', 'vprintf', 'putchar_unlocked', 'puts_unlocked'}
STREAM_WRITERS = {'fprintf': 0, 'fwrite': 3, 'fputs': 1, 'fputc': 1, 'vfprintf': 0, 'putc': 1, 'fflush': 0}


class Interp(object):
    """One instance per path execution."""

    def __init__(self, module, eng, externals=None, max_steps=20000):
        self.m = module
        self.eng = eng
        self.externals = externals or {}
        self.max_steps = max_steps
        self.steps = 0
        self.mem = {}            # region -> list of byte BVs (8 bits) for allocas / writable globals
        self.nalloca = 0
        self.events = []         # ('stdout', fn) / ('stderr', fn)
        self.ub = []             # names of UB obligations already emitted on this path
        self.called = set()
        self.freed = set()
        self.defer_ub = False     # True: require() collects, flush_ub() discharges
        self.pending_ub = []
        self.nheap = 0
        self.on_stdout = None     # callback(fname): the code writes to stdout on this path

    # ---- undefined behaviour -------------------------------------------------------------------
    def require(self, cond, what):
        """`cond` (z3 Bool) must hold on every input of this path, else the C code has undefined behaviour."""
        if z3.is_not(cond) and z3.is_false(cond.arg(0)):
            return
        cond = z3.simplify(cond)
        if z3.is_true(cond):
            return
        if self.defer_ub and not z3.is_false(cond):
            # discharged in one query by flush_ub() (end of the path / before an observation)
            self.pending_ub.append((cond, what))
            return
        r = self.eng.oblige('no-undefined-behaviour', cond, dict(what=what))
        if r is not None:
            # continue on the defined part only
            self.eng.assume(cond)

    def flush_ub(self):
        """discharge the deferred no-UB conditions of this path (one query; on failure each one is tried to name it)"""
        pend, self.pending_ub = self.pending_ub, []
        if not pend:
            return
        r = self.eng.oblige('no-undefined-behaviour', z3.And(*[c for c, _ in pend]), dict(what="; ".join(sorted(set(w for _, w in pend)))[:300]))
        if r is None or r == 'inconclusive':
            return
        # name the failing condition(s): replace the summary record by individual ones
        self.eng.path_out.pop()
        self.eng.stats['obligations'] -= 1
        self.eng.stats['violated'] -= 1
        for c, w in pend:
            if self.eng.oblige('no-undefined-behaviour', c, dict(what=w)) is not None:
                self.eng.assume(c)

    # ---- operands ------------------------------------------------------------------------------
    def operand(self, ty, txt, env):
        txt = txt.strip()
        if ty[0] == 'i':
            n = ty[1]
            if txt.startswith('%'):
                v = env[txt[1:]]
                return v
            if txt in ('true', 'false'):
                return Val(z3.BitVecVal(1 if txt == 'true' else 0, n))
            if txt in ('undef', 'poison'):
                return Val(z3.BitVecVal(0, n), z3.BoolVal(True))
            if re.match(r'-?\d+$', txt):
                return Val(z3.BitVecVal(int(txt), n))
            if txt.startswith('ptrtoint'):
                raise Unsupported("ptrtoint")
            raise Unsupported("int operand %r" % txt)
        if ty[0] == 'ptr':
            if txt.startswith('%'):
                return env[txt[1:]]
            if txt.startswith('@'):
                return Ptr(txt[1:], 0)
            if txt == 'null':
                return Ptr(None, 0)
            if txt.startswith('getelementptr') or txt.startswith('bitcast'):
                return self.const_expr(txt, env)
            if txt in ('undef', 'poison'):
                return Ptr(None, 0, z3.BoolVal(True))
            raise Unsupported("ptr operand %r" % txt)
        if ty[0] in ('f',):
            raise Unsupported("floating point")
        raise Unsupported("operand of type %r" % (ty,))

    def const_expr(self, txt, env):
        m = re.match(r'(getelementptr|bitcast)\s*(inbounds\s*)?\((.*)\)$', txt)
        if not m:
            raise Unsupported("constant expression %r" % txt)
        inner = m.group(3)
        if m.group(1) == 'bitcast':
            src = inner.rsplit(' to ', 1)[0]
            ty, pos = parse_type(src)
            return self.operand(ty, src[pos:], env)
        parts = split_top(inner)
        base_ty = parse_type(parts[0])[0]
        pty, pos = parse_type(parts[1])
        base = self.operand(pty, parts[1][pos:], env)
        idx = []
        for p in parts[2:]:
            t, pos = parse_type(p)
            idx.append(self.operand(t, p[pos:], env))
        return self.gep(base_ty, base, idx)

    def gep(self, base_ty, base, idx):
        off = base.off
        poison = base.poison
        ty = base_ty
        for k, ix in enumerate(idx):
            poison = _or(poison, ix.poison)
            ixv = z3.simplify(ix.bv)
            if k == 0:
                sz = self.m.sizeof(ty)
                off = self._addoff(off, ixv, sz)
                continue
            if ty[0] == 'named':
                ty = self.m.named_types[ty[1]]
            if ty[0] == 'arr':
                sz = self.m.sizeof(ty[2])
                off = self._addoff(off, ixv, sz)
                ty = ty[2]
            elif ty[0] == 'struct':
                if not z3.is_bv_value(ixv):
                    raise Unsupported("symbolic struct index")
                fo, ty = self.m.field_offset(ty, ixv.as_long())
                off = self._addoff(off, z3.BitVecVal(fo, 64), 1)
            else:
                raise Unsupported("gep into %r" % (ty,))
        return Ptr(base.region, off, poison)

    @staticmethod
    def _addoff(off, ixv, scale):
        if z3.is_bv_value(ixv) and isinstance(off, int):
            n = ixv.size()
            v = ixv.as_long()
            if v >= 1 << (n - 1):
                v -= 1 << n
            return off + v * scale
        o = z3.BitVecVal(off, 64) if isinstance(off, int) else off
        if ixv.size() < 64:
            ixv = z3.SignExt(64 - ixv.size(), ixv)
        elif ixv.size() > 64:
            ixv = z3.Extract(63, 0, ixv)
        return z3.simplify(o + ixv * z3.BitVecVal(scale, 64))

    # ---- memory --------------------------------------------------------------------------------
    def region_bytes(self, region):
        if region in self.freed:
            self.require(z3.BoolVal(False), "use of freed memory %s" % region)
            raise Abort("use after free")
        if region in self.mem:
            return self.mem[region]
        g = self.m.globals.get(region)
        if g is None or g['init'] is None:
            raise Unsupported("access to memory region %r" % region)
        b = [z3.BitVecVal(x, 8) for x in g['init']]
        if not g['const']:
            self.mem[region] = b
        return b

    def concrete_off(self, ptr, size, what):
        """offset as Python int (forking over the feasible values when symbolic)."""
        self.require(z3.Not(ptr.poison), "%s through a poison pointer" % what)
        if ptr.region is None:
            self.require(z3.BoolVal(False), "%s through a null pointer" % what)
            raise Abort("null dereference")
        off = ptr.off
        if isinstance(off, int):
            return off
        off = z3.simplify(off)
        if z3.is_bv_value(off):
            v = off.as_long()
            return v - (1 << 64) if v >= 1 << 63 else v
        return None

    def concretize(self, bv):
        """fork over the feasible values of a bit-vector (symbolic word index of the big-number code)"""
        class S(object):
            pass
        s = S()
        s.z, s.w = bv, bv.size()
        return self.eng.concretize(s)

    def load(self, ty, ptr):
        n = self.m.sizeof(ty)
        data = self.region_bytes(ptr.region)
        off = self.concrete_off(ptr, n, 'load')
        if off is None:
            # symbolic index into a (constant) table: bounds are an obligation, value is an if-chain
            o = ptr.off
            lim = len(data) - n
            self.require(z3.ULE(o, z3.BitVecVal(lim, 64)), "load out of the bounds of %s" % ptr.region)
            if any(isinstance(b, PtrCell) for b in list.__iter__(data)) or len(data) > 4096 or \
                    (len(data) > 64 and n != 1 and not all(z3.is_bv_value(b) for b in data)):
                # fork over the feasible offsets
                off = self.concretize(o)
            else:
                res = None
                for k in range(lim, -1, -1):
                    word = self._bytes_to_bv(data[k:k + n])
                    res = word if res is None else z3.If(o == z3.BitVecVal(k, 64), word, res)
                return self._from_bv(ty, res)
        if off < 0 or off + n > len(data):
            self.require(z3.BoolVal(False), "load of %d bytes at offset %d of %s (%d bytes)" % (n, off, ptr.region, len(data)))
            raise Abort("out of bounds")
        return self._from_bv(ty, self._bytes_to_bv(data[off:off + n]))

    @staticmethod
    def _bytes_to_bv(bs):
        if any(isinstance(b, PtrCell) for b in bs):
            return bs
        if len(bs) == 1:
            return bs[0]
        return z3.Concat(*reversed(bs))

    def _from_bv(self, ty, bv):
        if isinstance(bv, list):
            # the bytes hold (part of) a stored pointer
            if ty[0] == 'ptr' and len(bv) == 8 and all(isinstance(b, PtrCell) and b.k == k and b.ptr is bv[0].ptr
                                                       for k, b in enumerate(bv)):
                return bv[0].ptr
            raise Unsupported("read of pointer bytes as %r" % (ty,))
        if ty[0] == 'i':
            if bv.size() > ty[1]:
                bv = z3.Extract(ty[1] - 1, 0, bv)
            return Val(z3.simplify(bv))
        if ty[0] == 'ptr':
            v = z3.simplify(bv)
            if z3.is_bv_value(v) and v.as_long() == 0:
                return Ptr(None, 0)
            raise Unsupported("load of a pointer from bytes that do not hold one")
        raise Unsupported("load of %r" % (ty,))

    def store(self, ty, val, ptr):
        n = self.m.sizeof(ty)
        if ptr.region not in self.mem:
            g = self.m.globals.get(ptr.region)
            if g is None or g['const'] or g['init'] is None:
                raise Unsupported("store to %r" % ptr.region)
            self.region_bytes(ptr.region)
        data = self.mem[ptr.region]
        off = self.concrete_off(ptr, n, 'store')
        if off is None:
            o = ptr.off
            lim = len(data) - n
            self.require(z3.ULE(o, z3.BitVecVal(lim, 64)), "store out of the bounds of %s" % ptr.region)
            if ty[0] == 'i' and len(data) <= 64 and not any(isinstance(b, PtrCell) for b in list.__iter__(data)):
                # store at a symbolic offset of a small plain region: conditional update of every byte, no fork
                self.require(z3.Not(val.poison), "store of a poison value")
                bv = val.bv
                if bv.size() < 8 * n:
                    bv = z3.ZeroExt(8 * n - bv.size(), bv)
                for j in range(len(data)):
                    e = data[j]
                    for k in range(n):
                        if 0 <= j - k <= lim:
                            e = z3.If(o == z3.BitVecVal(j - k, 64), z3.Extract(8 * k + 7, 8 * k, bv), e)
                    data[j] = z3.simplify(e)
                return
            off = self.concretize(o)
        if off < 0 or off + n > len(data):
            self.require(z3.BoolVal(False), "store of %d bytes at offset %d of %s (%d bytes)" % (n, off, ptr.region, len(data)))
            raise Abort("out of bounds")
        if ty[0] == 'ptr':
            self.require(z3.Not(val.poison), "store of a poison pointer")
            if val.region is None:
                for k in range(8):
                    data[off + k] = z3.BitVecVal(0, 8)
            else:
                for k in range(8):
                    data[off + k] = PtrCell(val, k)
            return
        if ty[0] != 'i':
            raise Unsupported("store of %r" % (ty,))
        bv = val.bv
        if bv.size() < 8 * n:
            bv = z3.ZeroExt(8 * n - bv.size(), bv)
        # a poison value stored to memory is reported when it is stored (conservative but simple)
        self.require(z3.Not(val.poison), "store of a poison value")
        for k in range(n):
            data[off + k] = z3.simplify(z3.Extract(8 * k + 7, 8 * k, bv))

    def alloca(self, ty, count=1):
        self.nalloca += 1
        name = '%%alloca%d' % self.nalloca
        n = self.m.sizeof(ty) * count
        # uninitialised stack memory: reading it is not modelled as UB, it holds arbitrary bytes
        self.mem[name] = [z3.BitVec('%s_b%d' % (name, k), 8) for k in range(n)]
        return Ptr(name, 0)

    # ---- execution -----------------------------------------------------------------------------
    def call(self, fname, args):
        f = self.m.funcs.get(fname)
        if f is None:
            return self.external(fname, args)
        self.called.add(fname)
        env = {}
        for (ty, pname, marks), a in zip(f.params, args):
            bv_ = [mk for mk in marks if mk.startswith('@@byval(')]
            if bv_ and isinstance(a, Ptr):
                # struct passed by value: the callee works on its own copy
                sty = parse_type(bv_[0][len('@@byval('):-1])[0]
                n = self.m.sizeof(sty)
                off = self.concrete_off(a, n, 'byval copy')
                if off is None:
                    raise Unsupported("byval argument at a symbolic address")
                src = self.region_bytes(a.region)
                if off < 0 or off + n > len(src):
                    self.require(z3.BoolVal(False), "byval copy out of bounds")
                    raise Abort("out of bounds")
                self.nalloca += 1
                name = '%%byval%d' % self.nalloca
                self.mem[name] = list(src[off:off + n])
                a = Ptr(name, 0)
            env[pname] = a
        label = f.order[0]
        prev = None
        while True:
            instrs = f.blocks[label]
            # phis read the values of the previous block simultaneously
            k = 0
            newvals = {}
            while k < len(instrs) and ' = phi ' in instrs[k]:
                dst, rest = instrs[k].split(' = phi ', 1)
                ty, pos = parse_type(rest)
                found = None
                for inc in re.findall(r'\[\s*([^,\]]+),\s*%([\w.$-]+)\s*\]', rest[pos:]):
                    if inc[1] == prev:
                        found = inc[0]
                        break
                if found is None:
                    raise Unsupported("phi without incoming for %s in %s" % (prev, fname))
                newvals[dst.strip()[1:]] = self.operand(ty, found, env)
                k += 1
            env.update(newvals)
            for txt in instrs[k:]:
                self.steps += 1
                if self.steps > self.max_steps:
                    raise Unsupported("step bound %d exceeded in %s" % (self.max_steps, fname))
                r = self.step(f, txt, env)
                if r is None:
                    continue
                if r[0] == 'br':
                    prev, label = label, r[1]
                    break
                if r[0] == 'ret':
                    return r[1]
            else:
                raise Unsupported("block %s of %s falls through" % (label, fname))

    def external(self, fname, args):
        if fname in self.externals:
            return self.externals[fname](self, args)
        if fname.startswith('llvm.'):
            return self.intrinsic(fname, args)
        if fname in ('exit', 'abort', '_exit', '__assert_fail'):
            raise Abort(fname)
        if fname in ('sscanf', '__isoc99_sscanf'):
            return self.sscanf(args)
        if fname in ('malloc', 'calloc', 'realloc', 'free', 'strlen', 'strcpy', 'memmove', 'memcpy', 'memset'):
            return getattr(self, 'libc_' + fname)(args)
        if fname in STDOUT_WRITERS:
            self.events.append(('stdout', fname))
            if self.on_stdout is not None:
                self.on_stdout(fname)
            return Val(z3.BitVecVal(0, 32))
        if fname in STREAM_WRITERS:
            stream = args[STREAM_WRITERS[fname]]
            which = getattr(stream, 'region', None)
            self.events.append(('stdout' if which == 'FILE:stdout' else 'stderr' if which == 'FILE:stderr' else 'stream?', fname))
            if which != 'FILE:stderr' and self.on_stdout is not None:
                self.on_stdout("%s(%s)" % (fname, which))
            return Val(z3.BitVecVal(0, 64 if fname == 'fwrite' else 32))
        raise Unsupported("call to external function %s" % fname)

    # ---- heap: allocation always succeeds (NULL returns are outside the model); sizes must be concrete per path
    def _size(self, v, what):
        x = z3.simplify(v.bv)
        if z3.is_bv_value(x):
            return x.as_long()
        self.require(z3.Not(v.poison), "%s with a poison size" % what)
        return self.concretize(x) & ((1 << x.size()) - 1)

    def new_region(self, n, zero=False, tag='heap'):
        self.nheap += 1
        name = '%s%d' % (tag, self.nheap)
        self.mem[name] = [_ZERO8] * n if zero else LazyBytes(name, n)
        return Ptr(name, 0)

    def libc_malloc(self, args):
        n = self._size(args[0], 'malloc')
        if n > (1 << 20):
            raise Unsupported("malloc(%d)" % n)
        return self.new_region(n)

    def libc_calloc(self, args):
        n = self._size(args[0], 'calloc') * self._size(args[1], 'calloc')
        if n > (1 << 20):
            raise Unsupported("calloc(%d)" % n)
        return self.new_region(n, zero=True)

    def libc_free(self, args):
        p = args[0]
        if p.region is None:
            return None
        if p.region in self.freed:
            self.require(z3.BoolVal(False), "double free of %s" % p.region)
            raise Abort("double free")
        off = self.concrete_off(p, 0, 'free')
        if off != 0 or not p.region.startswith('heap'):
            self.require(z3.BoolVal(False), "free of a pointer that malloc did not return (%s+%r)" % (p.region, off))
            raise Abort("bad free")
        self.freed.add(p.region)
        return None

    def libc_realloc(self, args):
        p = args[0]
        n = self._size(args[1], 'realloc')
        if n > (1 << 20):
            raise Unsupported("realloc(%d)" % n)
        q = self.new_region(n)
        if p.region is not None:
            old = self.region_bytes(p.region)
            k = min(len(old), n)
            self.mem[q.region][:k] = list(old[:k])
            self.libc_free([p])
        return q

    def libc_strlen(self, args):
        return Val(z3.BitVecVal(len(self.c_string(args[0])), 64))

    def libc_strcpy(self, args):
        txt = self.c_string(args[1])
        for k, ch in enumerate(txt + chr(0)):
            self.store(('i', 8), Val(z3.BitVecVal(ord(ch), 8)), Ptr(args[0].region, self._addoff(args[0].off, z3.BitVecVal(k, 64), 1)))
        return args[0]

    def libc_memmove(self, args):
        self.intrinsic('llvm.memmove', [args[0], args[1], args[2]])
        return args[0]

    def libc_memcpy(self, args):
        self.intrinsic('llvm.memcpy', [args[0], args[1], args[2]])
        return args[0]

    def libc_memset(self, args):
        self.intrinsic('llvm.memset', [args[0], args[1], args[2]])
        return args[0]

    def sscanf(self, args):
        """sscanf(str, "%8x" | "%4hx" | "%2hhx", &out) on a constant string at a concrete offset (bignum_from_string)"""
        sp, fp, outp = args[0], args[1], args[2]
        fmt = self.c_string(fp)
        m = re.match(r'%(\d+)(hh|h|)x$', fmt)
        if not m:
            raise Unsupported("sscanf format %r" % fmt)
        width = int(m.group(1))
        nbytes = {'hh': 1, 'h': 2, '': 4}[m.group(2)]
        txt = self.c_string(sp)
        k = 0
        while k < len(txt) and txt[k] in ' \t\n':
            k += 1
        digits = ''
        while k < len(txt) and len(digits) < width and txt[k] in '0123456789abcdefABCDEF':
            digits += txt[k]
            k += 1
        if not digits:
            return Val(z3.BitVecVal(0, 32))
        self.store(('i', 8 * nbytes), Val(z3.BitVecVal(int(digits, 16), 8 * nbytes)), outp)
        return Val(z3.BitVecVal(1, 32))

    def c_string(self, ptr):
        data = self.region_bytes(ptr.region)
        off = self.concrete_off(ptr, 1, 'string read')
        if off is None:
            raise Unsupported("string at a symbolic address")
        out = ''
        while True:
            if off >= len(data):
                self.require(z3.BoolVal(False), "string read past the end of %s" % ptr.region)
                raise Abort("out of bounds")
            b = z3.simplify(data[off])
            if not z3.is_bv_value(b):
                raise Unsupported("symbolic string contents")
            if b.as_long() == 0:
                return out
            out += chr(b.as_long())
            off += 1

    def intrinsic(self, fname, args):
        base = fname.split('.')[1]
        if base in ('fshl', 'fshr'):
            a, b, c = args
            n = a.bv.size()
            sh = z3.URem(c.bv, z3.BitVecVal(n, n))
            cat = z3.Concat(a.bv, b.bv)
            sh2 = z3.ZeroExt(n, sh)
            if base == 'fshl':
                res = z3.Extract(2 * n - 1, n, cat << sh2)
            else:
                res = z3.Extract(n - 1, 0, z3.LShR(cat, sh2))
            return Val(z3.simplify(res), _or(a.poison, b.poison, c.poison))
        if base in ('ctlz', 'cttz'):
            a, flag = args
            n = a.bv.size()
            zero_poison = z3.is_true(z3.simplify(flag.bv == 1))
            res = z3.BitVecVal(n, n)
            rng = range(n) if base == 'ctlz' else range(n - 1, -1, -1)
            for i in rng:
                cnt = (n - 1 - i) if base == 'ctlz' else i
                res = z3.If(z3.Extract(i, i, a.bv) == 1, z3.BitVecVal(cnt, n), res)
            p = a.poison
            if zero_poison:
                p = _or(p, a.bv == 0)
            return Val(z3.simplify(res), p)
        if base == 'ctpop':
            a = args[0]
            n = a.bv.size()
            res = z3.BitVecVal(0, n)
            for i in range(n):
                res = res + z3.ZeroExt(n - 1, z3.Extract(i, i, a.bv))
            return Val(z3.simplify(res), a.poison)
        if base == 'bswap':
            a = args[0]
            n = a.bv.size()
            res = z3.Concat(*[z3.Extract(8 * k + 7, 8 * k, a.bv) for k in range(n // 8)])
            return Val(z3.simplify(res), a.poison)
        if base in ('umin', 'umax', 'smin', 'smax'):
            a, b = args
            c = {'umin': z3.ULE(a.bv, b.bv), 'umax': z3.UGE(a.bv, b.bv), 'smin': a.bv <= b.bv, 'smax': a.bv >= b.bv}[base]
            return Val(z3.simplify(z3.If(c, a.bv, b.bv)), _or(a.poison, b.poison))
        if base == 'abs':
            a, flag = args
            n = a.bv.size()
            p = a.poison
            if z3.is_true(z3.simplify(flag.bv == 1)):
                p = _or(p, a.bv == z3.BitVecVal(1 << (n - 1), n))
            return Val(z3.simplify(z3.If(a.bv < 0, -a.bv, a.bv)), p)
        if base in ('lifetime', 'assume', 'dbg', 'experimental', 'stacksave', 'stackrestore'):
            return None
        if base == 'memcpy' or base == 'memmove':
            dst, src, n = args[0], args[1], args[2]
            cnt = self._size(n, 'memcpy')
            if cnt == 0:
                return None
            so = self.concrete_off(src, cnt, 'memcpy')
            do = self.concrete_off(dst, cnt, 'memcpy')
            if so is None:
                so = self.concretize(src.off)
            if do is None:
                do = self.concretize(dst.off)
            sdata = self.region_bytes(src.region)
            if dst.region not in self.mem:
                self.region_bytes(dst.region)
            ddata = self.mem[dst.region]
            if so + cnt > len(sdata) or do + cnt > len(ddata) or so < 0 or do < 0:
                self.require(z3.BoolVal(False), "memcpy out of bounds (%s+%d -> %s+%d, %d bytes)" % (src.region, so, dst.region, do, cnt))
                raise Abort("out of bounds")
            chunk = list(sdata[so:so + cnt])
            ddata[do:do + cnt] = chunk
            return None
        if base == 'memset':
            dst, val, n = args[0], args[1], args[2]
            nv = z3.simplify(n.bv)
            if not z3.is_bv_value(nv):
                raise Unsupported("memset with symbolic length")
            cnt = nv.as_long()
            do = self.concrete_off(dst, cnt, 'memset')
            if do is None:
                raise Unsupported("memset with symbolic address")
            if dst.region not in self.mem:
                self.region_bytes(dst.region)
            ddata = self.mem[dst.region]
            if do < 0 or do + cnt > len(ddata):
                self.require(z3.BoolVal(False), "memset out of bounds (%s+%d, %d bytes)" % (dst.region, do, cnt))
                raise Abort("out of bounds")
            for k in range(cnt):
                ddata[do + k] = z3.Extract(7, 0, val.bv) if val.bv.size() > 8 else val.bv
            return None
        raise Unsupported("intrinsic %s" % fname)

    BINOPS = ('add', 'sub', 'mul', 'udiv', 'sdiv', 'urem', 'srem', 'shl', 'lshr', 'ashr', 'and', 'or', 'xor')

    def step(self, f, txt, env):
        txt = re.sub(r'(,\s*![\w.]+\s*![\w.]+)+\s*$', '', txt)
        txt = re.sub(r'\s+#\d+\s*$', '', txt)
        dst = None
        m = re.match(r'%([\w.$-]+)\s*=\s*(.*)$', txt)
        if m:
            dst, txt = m.group(1), m.group(2)
        toks = txt.split(None, 1)
        op = toks[0]
        rest = toks[1] if len(toks) > 1 else ''
        if op in ('tail', 'musttail', 'notail'):
            toks = rest.split(None, 1)
            op, rest = toks[0], toks[1]
        if op in self.BINOPS:
            flags = set()
            while True:
                t = rest.split(None, 1)
                if t[0] in ('nuw', 'nsw', 'exact'):
                    flags.add(t[0])
                    rest = t[1]
                else:
                    break
            ty, pos = parse_type(rest)
            a_txt, b_txt = split_top(rest[pos:])
            a = self.operand(ty, a_txt, env)
            b = self.operand(ty, b_txt, env)
            env[dst] = self.binop(op, flags, ty[1], a, b)
            return None
        if op == 'icmp':
            pred, rest2 = rest.split(None, 1)
            ty, pos = parse_type(rest2)
            a_txt, b_txt = split_top(rest2[pos:])
            a = self.operand(ty, a_txt, env)
            b = self.operand(ty, b_txt, env)
            if ty[0] == 'ptr':
                if pred not in ('eq', 'ne'):
                    raise Unsupported("pointer ordering")
                same = (a.region == b.region)
                if not same:
                    c = z3.BoolVal(False)
                else:
                    ao = z3.BitVecVal(a.off, 64) if isinstance(a.off, int) else a.off
                    bo = z3.BitVecVal(b.off, 64) if isinstance(b.off, int) else b.off
                    c = ao == bo
                if pred == 'ne':
                    c = z3.Not(c)
            else:
                x, y = a.bv, b.bv
                c = {'eq': x == y, 'ne': x != y, 'ugt': z3.UGT(x, y), 'uge': z3.UGE(x, y), 'ult': z3.ULT(x, y),
                     'ule': z3.ULE(x, y), 'sgt': x > y, 'sge': x >= y, 'slt': x < y, 'sle': x <= y}[pred]
            env[dst] = Val(z3.simplify(z3.If(c, z3.BitVecVal(1, 1), z3.BitVecVal(0, 1))), _or(a.poison, b.poison))
            return None
        if op == 'select':
            parts = split_top(rest)
            cty, pos = parse_type(parts[0])
            c = self.operand(cty, parts[0][pos:], env)
            ty, pos = parse_type(parts[1])
            a = self.operand(ty, parts[1][pos:], env)
            ty2, pos2 = parse_type(parts[2])
            b = self.operand(ty2, parts[2][pos2:], env)
            cb = c.bv == 1
            if ty[0] == 'ptr':
                cs = z3.simplify(cb)
                if z3.is_true(cs):
                    env[dst] = a
                elif z3.is_false(cs):
                    env[dst] = b
                else:
                    self.require(z3.Not(c.poison), "select of pointers on a poison condition")
                    env[dst] = a if self.eng.branch(cb) else b
                return None
            env[dst] = Val(z3.simplify(z3.If(cb, a.bv, b.bv)),
                           z3.simplify(_or(c.poison, z3.If(cb, a.poison, b.poison))))
            return None
        if op in ('zext', 'sext', 'trunc', 'bitcast', 'freeze', 'ptrtoint', 'inttoptr', 'addrspacecast'):
            if op == 'freeze':
                ty, pos = parse_type(rest)
                v = self.operand(ty, rest[pos:], env)
                if ty[0] == 'i':
                    self.require(z3.Not(v.poison), "freeze of poison (value would be arbitrary)")
                    env[dst] = Val(v.bv)
                else:
                    env[dst] = v
                return None
            src, to = rest.rsplit(' to ', 1)
            ty, pos = parse_type(src)
            tty = parse_type(to)[0]
            v = self.operand(ty, src[pos:], env)
            if op == 'bitcast':
                if ty[0] == 'ptr' and tty[0] == 'ptr':
                    env[dst] = v
                    return None
                raise Unsupported("bitcast %r to %r" % (ty, tty))
            if op in ('ptrtoint', 'inttoptr', 'addrspacecast'):
                raise Unsupported(op)
            n, mth = ty[1], tty[1]
            if op == 'zext':
                r = z3.ZeroExt(mth - n, v.bv)
            elif op == 'sext':
                r = z3.SignExt(mth - n, v.bv)
            else:
                r = z3.Extract(mth - 1, 0, v.bv)
            env[dst] = Val(z3.simplify(r), v.poison)
            return None
        if op == 'br':
            if rest.startswith('label'):
                return ('br', rest.split('%', 1)[1].strip())
            parts = split_top(rest)
            cty, pos = parse_type(parts[0])
            c = self.operand(cty, parts[0][pos:], env)
            self.require(z3.Not(c.poison), "branch on a poison value (%s)" % f.name)
            t_lbl = parts[1].split('%', 1)[1].strip()
            f_lbl = parts[2].split('%', 1)[1].strip()
            return ('br', t_lbl if self.eng.branch(c.bv == 1) else f_lbl)
        if op == 'switch':
            head, cases = rest.split('[', 1)
            parts = split_top(head)
            ty, pos = parse_type(parts[0])
            v = self.operand(ty, parts[0][pos:], env)
            self.require(z3.Not(v.poison), "switch on a poison value (%s)" % f.name)
            default = parts[1].split('%', 1)[1].strip()
            for cm in re.finditer(r'i\d+\s+(-?\d+),\s*label\s+%([\w.$-]+)', cases):
                if self.eng.branch(v.bv == z3.BitVecVal(int(cm.group(1)), ty[1])):
                    return ('br', cm.group(2))
            return ('br', default)
        if op == 'ret':
            if rest.strip() == 'void':
                return ('ret', None)
            ty, pos = parse_type(rest)
            return ('ret', self.operand(ty, rest[pos:], env))
        if op == 'unreachable':
            self.require(z3.BoolVal(False), "reached 'unreachable' in %s" % f.name)
            raise Abort("unreachable")
        if op == 'call':
            m2 = re.search(r'@([\w.$]+)\s*\(', rest)
            if not m2:
                raise Unsupported("indirect call")
            fname = m2.group(1)
            # matching parenthesis
            i = m2.end() - 1
            depth = 0
            j = i
            while True:
                if rest[j] == '(':
                    depth += 1
                elif rest[j] == ')':
                    depth -= 1
                    if depth == 0:
                        break
                j += 1
            args = []
            for a in split_top(rest[i + 1:j]):
                a2 = strip_attrs(a)
                a2 = ' '.join(t for t in a2.split() if not t.startswith('@@'))
                ty, pos = parse_type(a2)
                if ty[0] in ('metadata',):
                    args.append(None)
                    continue
                if ty[0] == 'ptr' and a2[pos:].strip().startswith('%') is False and '@stderr' in a2:
                    args.append(Ptr('FILE:stderr'))
                    continue
                args.append(self.operand(ty, a2[pos:], env))
            r = self.call(fname, args)
            if dst is not None:
                env[dst] = r
            return None
        if op == 'load':
            parts = split_top(rest)
            ty = parse_type(parts[0])[0]
            pty, pos = parse_type(parts[1])
            ptxt = parts[1][pos:].strip()
            if ptxt in ('@stderr', '@stdout', '@stdin'):
                env[dst] = Ptr('FILE:' + ptxt[1:])
                return None
            if ty[0] == 'ptr' and ptxt.startswith('@') and (self.m.globals.get(ptxt[1:]) or {}).get('init') is None:
                env[dst] = Ptr('extern:' + ptxt[1:])      # opaque pointer held by an external global (e.g. jitcpu)
                return None
            p = self.operand(pty, ptxt, env)
            env[dst] = self.load(ty, p)
            return None
        if op == 'store':
            parts = split_top(rest)
            ty, pos = parse_type(parts[0])
            v = self.operand(ty, parts[0][pos:], env)
            pty, pos2 = parse_type(parts[1])
            p = self.operand(pty, parts[1][pos2:], env)
            self.store(ty, v, p)
            return None
        if op == 'getelementptr':
            if rest.startswith('inbounds'):
                rest = rest[len('inbounds'):]
            parts = split_top(rest)
            base_ty = parse_type(parts[0])[0]
            pty, pos = parse_type(parts[1])
            base = self.operand(pty, parts[1][pos:], env)
            idx = []
            for p in parts[2:]:
                t, pos = parse_type(p)
                idx.append(self.operand(t, p[pos:], env))
            env[dst] = self.gep(base_ty, base, idx)
            return None
        if op == 'alloca':
            parts = split_top(rest)
            ty = parse_type(parts[0])[0]
            env[dst] = self.alloca(ty)
            return None
        raise Unsupported("instruction %r" % (op,))

    def binop(self, op, flags, n, a, b):
        x, y = a.bv, b.bv
        p = _or(a.poison, b.poison)
        N = z3.BitVecVal
        if op in ('udiv', 'sdiv', 'urem', 'srem'):
            self.require(z3.Not(p), "%s on a poison operand" % op)
            self.require(y != 0, "%s by zero" % op)
            if op in ('sdiv', 'srem'):
                self.require(z3.Not(z3.And(x == N(1 << (n - 1), n), y == N((1 << n) - 1, n))),
                             "%s overflow: INT_MIN / -1 on i%d" % (op, n))
            if op == 'udiv':
                r = z3.UDiv(x, y)
                if 'exact' in flags:
                    p = _or(p, z3.URem(x, y) != 0)
            elif op == 'sdiv':
                r = x / y
                if 'exact' in flags:
                    p = _or(p, z3.SRem(x, y) != 0)
            elif op == 'urem':
                r = z3.URem(x, y)
            else:
                r = z3.SRem(x, y)
            return Val(z3.simplify(r), z3.BoolVal(False))
        if op in ('shl', 'lshr', 'ashr'):
            p = _or(p, z3.UGE(y, N(n, n))) if (1 << n) > n else p
            if op == 'shl':
                r = x << y
                if 'nuw' in flags:
                    p = _or(p, z3.LShR(r, y) != x)
                if 'nsw' in flags:
                    p = _or(p, (r >> y) != x)
            elif op == 'lshr':
                r = z3.LShR(x, y)
                if 'exact' in flags:
                    p = _or(p, (r << y) != x)
            else:
                r = x >> y
                if 'exact' in flags:
                    p = _or(p, (r << y) != x)
            return Val(z3.simplify(r), z3.simplify(p))
        if op == 'add':
            r = x + y
            if 'nuw' in flags:
                p = _or(p, z3.Not(z3.BVAddNoOverflow(x, y, False)))
            if 'nsw' in flags:
                p = _or(p, z3.Not(z3.And(z3.BVAddNoOverflow(x, y, True), z3.BVAddNoUnderflow(x, y))))
        elif op == 'sub':
            r = x - y
            if 'nuw' in flags:
                p = _or(p, z3.ULT(x, y))
            if 'nsw' in flags:
                p = _or(p, z3.Not(z3.And(z3.BVSubNoOverflow(x, y), z3.BVSubNoUnderflow(x, y, True))))
        elif op == 'mul':
            r = x * y
            if 'nuw' in flags:
                p = _or(p, z3.Not(z3.BVMulNoOverflow(x, y, False)))
            if 'nsw' in flags:
                p = _or(p, z3.Not(z3.And(z3.BVMulNoOverflow(x, y, True), z3.BVMulNoUnderflow(x, y))))
        elif op == 'and':
            r = x & y
        elif op == 'or':
            r = x | y
        else:
            r = x ^ y
        return Val(z3.simplify(r), z3.simplify(p))
